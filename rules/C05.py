"""C05  A routed Message reaches exactly the sessions its patterns select, once each.
ORDER (sender identity is overwritten before any routing), GUARD (no self-delivery unless reflect-to-self), ONCE (one delivery per session),
UNIQUE-AGREE (literal-lookup fast path only for patterns classified unique, looked up unescaped).  DESIGN.md section 4 (C05)."""
import re
from msa import guards as G
from msa import ip as IP
from msa import pair as P
from msa import ast as A
from msa import cfg as C
from msa.taint import P_canon
from msa.facts import AnalysisBroken
from . import common
from .C06 import SRS


def self_guard_ok(f, deliver, target_var, flag_pred):
    """on every acyclic path from the function entry to `deliver`: (target != this) was true, or the include-self flag was true"""
    tp = P.pos_of(f, deliver)
    paths, complete = C.paths_between(f, (f.entry, -1), tp)
    if not complete or not paths:
        return False, 'path enumeration incomplete'
    for asg in paths:
        good = False
        for (cid, truth) in asg.items():
            cn = f.nodes.get(cid)
            if cn is None:
                continue
            n = A.strip_casts(cn)
            pol = truth
            while n['k'] == 'UnaryOperator' and n.get('op') == '!':
                pol = not pol
                n = A.strip_casts(n['ch'][0])
            if n['k'] == 'BinaryOperator' and n.get('op') in ('!=', '=='):
                l, r = A.strip_casts(n['ch'][0]), A.strip_casts(n['ch'][1])
                pair = set([l['k'], r['k']])
                if 'CXXThisExpr' in pair and any(x.get('d') == target_var for x in (l, r)):
                    differs = pol if n['op'] == '!=' else (not pol)
                    if differs:
                        good = True
            if flag_pred(n) and pol:
                good = True
        if not good:
            return False, 'a path reaches the delivery with neither (target != this) nor the include-self flag established'
    return True, '%d paths, each establishes (target != this) or the include-self flag' % len(paths)


def match_recheck_rule(res, fx, rule='GUARD'):
    cc = fx.fn1(SRS + '::NodePathMatcher::CheckChildForTraversal')
    # ---- MATCH-RECHECK: with more than one pattern, clause-wise matching can accept a node that no single pattern matches ("conspiring" patterns); the shortcut that skips the
    # full-path re-check (MatchesNode) must therefore establish that there is exactly ONE pattern, not merely one pattern depth
    mn = [c for c in P.calls(cc, r'::MatchesNode$')]
    if not mn:
        raise AnalysisBroken('MATCH-RECHECK: MatchesNode() call not found in CheckChildForTraversal')
    cbs = [c for c in P.calls(cc, r'::CallCallbackMethod$')]
    bypass_ok = True
    howb = None
    mnp = P.pos_of(cc, mn[0])
    mblk = mnp[0]
    # conditions from which the callback is reachable without evaluating MatchesNode: collect the atoms on such a path
    for cb in cbs[:1]:
        paths, complete = C.paths_between(cc, (cc.entry, -1), P.pos_of(cc, cb), avoid_blocks=[mblk], limit=20000)
        inner_count_seen = False
        for blk in cc.blocks.values():
            if blk.cond is None or blk.cond not in cc.nodes:
                continue
            cn = cc.nodes[blk.cond]
            for x in cn.walk():
                if x['k'] == 'CXXMemberCallExpr' and (x.get('q') or '').split('::')[-1] in ('GetNumItems', 'HasItems', 'IsEmpty') and x.receiver() is not None:
                    rt = x.receiver().type()
                    if 'PathMatcherEntry' in rt and 'Hashtable<unsigned int' not in rt and 'Hashtable<muscle::uint32' not in rt:
                        # a test on a per-depth table String -> PathMatcherEntry
                        if any(blk.cond in d for d in paths):
                            inner_count_seen = True
        outer = False
        for d in paths:
            for cid, t in d.items():
                cn = cc.nodes.get(cid)
                if cn is not None and any(x['k'] == 'CXXMemberCallExpr' and (x.get('q') or '').endswith('::GetNumItems') and x.receiver() is not None and 'GetEntries' in x.receiver().text() for x in cn.walk()):
                    outer = True
        if paths and not inner_count_seen:
            bypass_ok = False
            howb = 'the callback is reachable without MatchesNode() on %d path(s) that test only GetEntries().GetNumItems() (number of distinct pattern depths)' % len(paths)
        # exactly one pattern = one depth table AND one pattern in it: every bypass path takes the true edge of a `== 1` test on each of the two counts
        def count_is_one(cid, truth, which):
            cn_ = cc.nodes.get(cid)
            if cn_ is None:
                return False
            for (l_, op_, r_) in A.rel_forms(cn_, truth):
                if op_ == '==' and r_.get('v') == 1 and l_['k'] == 'CXXMemberCallExpr' and (l_.get('q') or '').endswith('::GetNumItems') and l_.receiver() is not None:
                    is_outer = 'GetEntries' in l_.receiver().text() and 'GetValue' not in l_.receiver().text()
                    if (which == 'outer') == is_outer:
                        return True
            return False
        for d in paths:
            if not (any(count_is_one(cid, t, 'outer') for cid, t in d.items()) and any(count_is_one(cid, t, 'inner') for cid, t in d.items())):
                bypass_ok = False
                howb = howb or 'a path reaches the callback without MatchesNode() and without having established both GetEntries().GetNumItems() == 1 and <depth table>.GetNumItems() == 1'
    res.ob(rule, cc.where(mn[0]), 'the shortcut around the full-path re-check MatchesNode() requires exactly one pattern (a test on the per-depth pattern table, not only on the number of depths)', bypass_ok,
           how=howb, function=cc.q, key=rule + '|%s|match-recheck' % cc.q,
           message='CheckChildForTraversal can skip MatchesNode() when there is more than one pattern (it must establish one pattern depth AND one pattern of that depth): patterns are matched clause '
                   'by clause and "conspire" — j*/k* with k*/j* select jeremy/jenny; a/x with b/*/y select b/x — so the Message reaches a session that owns no matching node')


def clause_lookup_rules(res, fx, rule):
    """The literal-lookup fast path of the traversal, judged per call site of DoDirectChildLookup (shared by C04, C05 and C06: subscriptions, routing and the removal of marks all use
    this traversal, while marks are PLACED by pattern matching — the two must name the same nodes):
      (a) between the pattern text and DataNode::GetChild() the clause is unescaped exactly once (splitter that drops escape characters / RemoveEscapeChars at the call / in the callee);
      (b) the accumulator a clause is split into is empty when the splitting of an entry begins (no text carried over from the previous entry)."""
    SRSq = 'muscle::StorageReflectSession'
    NPM = r'^muscle::StorageReflectSession::NodePathMatcher::'
    f = fx.fn1(SRSq + '::NodePathMatcher::DoTraversalAux')
    g = fx.fn1(SRSq + '::NodePathMatcher::DoDirectChildLookup')
    sites = [(g_, c) for g_ in IP.scope(fx, f, NPM) if g_ is not g for c in P.calls(g_, r'::DoDirectChildLookup$')]
    if len(sites) < 2:
        raise AnalysisBroken('%s: fewer than two DoDirectChildLookup call sites found' % rule)
    is_unesc = lambda x: x.is_call() and (x.get('q') or '').endswith('RemoveEscapeChars')
    kd = g.params[2]['d'] if len(g.params) > 2 else None
    callee = 1 if any(is_unesc(x) and x.args() and A.strip_casts(x.args()[0]).get('d') == kd for c in P.calls(g, r'^muscle::DataNode::GetChild$')
                      for x in (list(c.args()[0].walk()) + list(G.local_init(g, c.args()[0]).walk()) if c.args() else [])) else 0
    for (g_, c) in sites:
        if len(c.args()) < 3:
            continue
        arg = c.args()[2]
        at_call = 1 if any(is_unesc(x) for x in arg.walk()) else 0
        a2 = A.strip_casts(arg)
        drops = 0
        apps = []
        if a2['k'] == 'DeclRefExpr' and a2.get('d') is not None:
            apps = [x for x in g_.walk() if x['k'] == 'CXXOperatorCallExpr' and (x.get('q') or '').endswith('::operator+=') and len(x['ch']) > 2 and A.strip_casts(x['ch'][1]).get('d') == a2['d']]
        if apps:
            flags = set()
            for v in g_.walk():
                rhs = v['ch'][0] if v['k'] == 'VarDecl' and v['ch'] and 'bool' in v.type() else (v['ch'][1] if v['k'] == 'BinaryOperator' and v.get('op') == '=' and 'bool' in A.strip_casts(v['ch'][0]).type() else None)
                if rhs is not None and any(x['k'] == 'BinaryOperator' and x.get('op') in ('==', '!=') and any(A.strip_casts(y).get('v') == 92 for y in x['ch']) for x in rhs.walk()):
                    flags.add(v['d'] if v['k'] == 'VarDecl' else A.strip_casts(v['ch'][0]).get('d'))
            keeps = False
            for ap in apps:
                if not any(A.bool_polarity(cn, t)[0]['k'] == 'DeclRefExpr' and A.bool_polarity(cn, t)[0].get('d') in flags and A.bool_polarity(cn, t)[1] is False for (cn, t) in G.atoms_at(g_, ap)):
                    keeps = True
            drops = 1 if (flags and not keeps) else 0
        total = drops + at_call + callee
        res.ob(rule, g_.where(c), 'traversal line %s: the clause is unescaped exactly once between the pattern and GetChild()' % c.get('l'), total == 1, function=g_.q,
               key='%s|%s|lookup-unescape:%s' % (rule, g_.q, A.strip_casts(arg).text(24)), how='splitter drops escapes %d + at the call %d + in DoDirectChildLookup %d' % (drops, at_call, callee),
               message='%s hands `%s` to DoDirectChildLookup() with %d unescaping step(s) between the pattern text and DataNode::GetChild() (splitter %d, at the call %d, in the callee %d): the node the '
                       'fast path looks up is not the node the pattern matches (`take \\(1\\)` vs the node `take (1)`), so a traversal — which removes a departing session\'s marks, routes Messages and '
                       'builds snapshots — disagrees with the per-node pattern matching that placed the marks' % (g_.q, A.strip_casts(arg).text(30), total, drops, at_call, callee))
        if apps:
            # (b) empty at the start of every entry: from the header of the loop that encloses the splitting loop, no append is reachable without passing a Clear()/assignment of the accumulator
            d = a2['d']
            clears = [x for x in g_.walk() if (x['k'] == 'CXXMemberCallExpr' and (x.get('q') or '').endswith('::Clear') and x.receiver() is not None and A.strip_casts(x.receiver()).get('d') == d)
                      or (x['k'] == 'CXXOperatorCallExpr' and (x.get('q') or '').endswith('::operator=') and len(x['ch']) > 1 and A.strip_casts(x['ch'][1]).get('d') == d)
                      or (x['k'] == 'VarDecl' and x.get('d') == d)]
            loops = C.natural_loops(g_)
            ap_blocks = set(P.pos_of(g_, ap)[0] for ap in apps if P.pos_of(g_, ap))
            inner = [(h, body) for (h, body) in loops if ap_blocks & body]
            inner.sort(key=lambda hb: len(hb[1]))
            ok_fresh = True
            hdr = None
            if len(inner) >= 2:
                hdr = inner[1][0]              # the loop over the entries (smallest loop strictly containing the character loop)
                ok_fresh = not C.can_reach(g_, (hdr, 0), set(P.pos_of(g_, ap) for ap in apps if P.pos_of(g_, ap)), avoid_points=set(P.pos_of(g_, x) for x in clears if P.pos_of(g_, x)))
            res.ob(rule, g_.where(apps[0]), 'traversal: the accumulator `%s` is empty when the splitting of an entry begins' % a2.get('n'), ok_fresh and hdr is not None, function=g_.q,
                   key='%s|%s|accumulator-fresh:%s' % (rule, g_.q, a2.get('n')),
                   message='%s can start splitting the clause of one entry with text of the previous entry still in `%s` (the last name of a comma list stays there after its lookup): for the subscriptions '
                           '`a,b` and `c,d` sent in one Message the fast path looks up `bc` instead of `c`, so the initial snapshot misses a matching node' % (g_.q, a2.get('n')))


def run(res, tier):
    fx = common.load_units(res, ['reflector/StorageReflectSession.cpp', 'reflector/DumbReflectSession.cpp', 'reflector/AbstractReflectSession.cpp'],
                           fn_regex=r'^muscle::(StorageReflectSession|DumbReflectSession|AbstractReflectSession)')
    res.functions_analysed = sum(1 for f in fx.funcs.values() if f.full)
    rts = fx.enum_const('MUSCLE_ROUTING_FLAG_REFLECT_TO_SELF')
    depth_sn = fx.enum_const('NODE_DEPTH_SESSIONNAME')
    if rts is None or depth_sn is None:
        raise AnalysisBroken('routing constants not found')
    # ------------------------------------------------------------------------------------------- ORDER
    res.rule('ORDER', 'in the client-to-client branch of the dispatcher the PR_NAME_SESSION field is overwritten with this session\'s id before any routing call', floor=3)
    f = fx.fn1(SRS + '::MessageReceivedFromGateway')
    SC = r'^muscle::StorageReflectSession::'

    def is_rep(c):
        if not (c.is_call() and re.search(r'^muscle::Message::ReplaceString$', c.get('q') or '')):
            return False
        a = c.args()
        return len(a) >= 3 and any((x.get('q') or '').endswith('::GetSessionIDString') and (x.receiver() is None or A.strip_casts(x.receiver())['k'] == 'CXXThisExpr') for x in a[2].walk() if x.is_call())

    def is_route(c):
        if not c.is_call():
            return False
        q = c.get('q') or ''
        if re.search(r'NodePathMatcher::DoTraversal$', q):
            return bool(c.args()) and any(x.get('n') == 'PassMessageCallbackFunc' for x in c.args()[0].walk())
        return bool(re.search(r'^muscle::DumbReflectSession::MessageReceivedFromGateway$|::BroadcastToAllSessions$', q))
    # the overwrite and the routing calls may sit in the dispatcher itself or in private helpers it calls (msa/ip.py): what is required is their order as seen from the dispatcher
    rep = IP.must_sites(fx, f, is_rep, SC)
    routes = IP.may_sites(fx, f, is_route, SC)
    leaves = [leaf for (_, ls) in routes for leaf in ls]
    if len(leaves) < 3:
        raise AnalysisBroken('ORDER: expected 3 routing calls in the dispatcher (or its helpers), found %d' % len(leaves))
    for (r, ls) in routes:
        ok = bool(rep) and P.must_precede(f, rep, r)
        for (g_, leaf) in ls:
            res.ob('ORDER', g_.where(leaf), 'routing call `%s` is preceded by ReplaceString(…, PR_NAME_SESSION, GetSessionIDString())' % leaf.text(50), ok,
                   how='overwrite at line %s dominates%s' % (rep[0].get('l') if rep else '?', '' if g_ is f else ' the call of %s at line %s' % (g_.q.split('::')[-1], r.get('l'))), function=f.q,
                   key='ORDER|%s|%s' % (f.q, (leaf.get('q') or '').split('::')[-1] + ':' + str(leaves.index((g_, leaf)))),
                   message='the dispatcher can route a client Message before overwriting its PR_NAME_SESSION field: a client can forge the sender identity seen by other clients')
    # ------------------------------------------------------------------------------------------- GUARD / ONCE
    res.rule('GUARD', 'a routed Message is handed to the session owning the matched node, and to the sender itself only under the reflect-to-self flag', floor=3)
    f = fx.fn1(SRS + '::PassMessageCallbackAux')
    dl = [c for c in f.walk() if c['k'] == 'CXXMemberCallExpr' and (c.get('q') or '').endswith('::MessageReceivedFromSession')]
    if len(dl) != 1:
        raise AnalysisBroken('PassMessageCallbackAux: expected one delivery call, found %d' % len(dl))
    d = dl[0]
    tgt = A.strip_casts(d.receiver())
    incl = f.params[2]['d']
    ok, how = self_guard_ok(f, d, tgt.get('d'), lambda n: n['k'] == 'DeclRefExpr' and n.get('d') == incl)
    from_this = d.args() and A.strip_casts(d.args()[0])['k'] == 'UnaryOperator' and A.strip_casts(A.strip_casts(d.args()[0])['ch'][0])['k'] == 'CXXThisExpr'
    res.ob('GUARD', f.where(d), 'PassMessageCallbackAux delivers to the sender itself only if includeSelfOkay, and names *this as the sender', ok and bool(from_this), how=how, function=f.q,
           key='GUARD|%s|self' % f.q, message='PassMessageCallbackAux: %s; a client receives its own routed Messages although reflect-to-self is off (or the delivery no longer names *this as sender)' % how)
    # target = session owning the matched node
    own = False
    for v in f.walk():
        if v['k'] == 'VarDecl' and v['d'] == tgt.get('d') and v['ch']:
            calls = [x for x in A.walk_through_locals(f, v['ch'][0]) if x.is_call()]
            own = any((x.get('q') or '').endswith('::GetAncestorNode') and x.args() and x.args()[0].get('v') == depth_sn for x in calls) and any((x.get('q') or '').endswith('::GetSession') for x in calls)
    res.ob('GUARD', f.where(), 'the delivery target is GetSession(name of the matched node\'s ancestor at NODE_DEPTH_SESSIONNAME)', own, function=f.q, key='GUARD|%s|target' % f.q,
           how='GetSession(node.GetAncestorNode(NODE_DEPTH_SESSIONNAME, &node)->GetNodeName())',
           message='PassMessageCallbackAux no longer delivers to the session that owns the matched node')
    f2 = fx.fn1(SRS + '::PassMessageCallback')
    ok = False
    for c in P.calls(f2, r'::PassMessageCallbackAux$'):
        a = c.args()
        if len(a) >= 3:
            x = A.strip_casts(a[2])
            ok = x.is_call() and (x.get('q') or '').endswith('::IsRoutingFlagSet') and x.args() and x.args()[0].get('v') == rts
    res.ob('GUARD', f2.where(), 'PassMessageCallback passes IsRoutingFlagSet(MUSCLE_ROUTING_FLAG_REFLECT_TO_SELF) as includeSelfOkay', ok, function=f2.q, key='GUARD|%s|flag' % f2.q,
           message='PassMessageCallback no longer derives includeSelfOkay from the reflect-to-self routing flag')
    # broadcast
    f3 = fx.fn1('muscle::AbstractReflectSession::BroadcastToAllSessions')
    dl = [c for c in f3.walk() if c['k'] == 'CXXMemberCallExpr' and (c.get('q') or '').endswith('::MessageReceivedFromSession')]
    if len(dl) == 1:
        tgt3 = A.strip_casts(dl[0].receiver())
        toself = f3.params[2]['d']
        # path enumeration from the loop body start: use the VarDecl of the target
        vd = [v for v in f3.walk() if v['k'] == 'VarDecl' and v['d'] == tgt3.get('d')]
        paths, complete = C.paths_between(f3, P.pos_of(f3, vd[0]), P.pos_of(f3, dl[0])) if vd else ([], False)
        ok = complete and bool(paths)
        for asg in paths:
            good = False
            for (cid, truth) in asg.items():
                n = A.strip_casts(f3.nodes[cid])
                if n['k'] == 'DeclRefExpr' and n.get('d') == toself and truth:
                    good = True
                for (l, op_, r) in A.rel_forms(n, truth):
                    if op_ == '!=' and l['k'] == 'CXXThisExpr' and r.get('d') == tgt3.get('d'):
                        good = True
            ok = ok and good
        res.ob('GUARD', f3.where(dl[0]), 'BroadcastToAllSessions skips the sender unless toSelf', ok, how='%d paths checked' % len(paths), function=f3.q, key='GUARD|%s|self' % f3.q,
               message='BroadcastToAllSessions can deliver a broadcast back to its sender although toSelf is false')
    # every broadcast of a client's Message made from the session classes derives toSelf from the reflect-to-self routing flag (the parameter defaults to true)
    for fb in sorted((g_ for g_ in fx.funcs.values() if g_.full and re.search(r'^muscle::(StorageReflectSession|DumbReflectSession)::MessageReceivedFromGateway$', g_.q)), key=lambda g_: (g_.file, g_.line)):
        for c in P.calls(fb, r'::BroadcastToAllSessions$'):
            a = c.args()
            x = A.strip_casts(a[2]) if len(a) >= 3 else None
            okb = x is not None and x['k'] != 'CXXDefaultArgExpr' and any(y.is_call() and (y.get('q') or '').endswith('::IsRoutingFlagSet') and y.args() and y.args()[0].get('v') == rts for y in A.walk_through_locals(fb, x))
            res.ob('GUARD', fb.where(c), '%s: BroadcastToAllSessions(…, toSelf = IsRoutingFlagSet(REFLECT_TO_SELF))' % fb.q.split('::')[-2], okb, function=fb.q, key='GUARD|%s|broadcast-toself' % fb.q,
                   message='%s broadcasts a client Message with toSelf = `%s` instead of the reflect-to-self routing flag: the sender gets its own Message back although reflect-to-self is off'
                           % (fb.q, a[2].text(30) if len(a) >= 3 else 'default (true)'))
    f4 = fx.fn1('muscle::DumbReflectSession::MessageReceivedFromGateway')
    ok = False
    for c in P.calls(f4, r'::BroadcastToAllSessions$'):
        a = c.args()
        x = A.strip_casts(a[2]) if len(a) >= 3 else None
        ok = x is not None and x.is_call() and (x.get('q') or '').endswith('::IsRoutingFlagSet') and x.args() and x.args()[0].get('v') == rts
    res.ob('GUARD', f4.where(), 'DumbReflectSession broadcasts with toSelf = IsRoutingFlagSet(REFLECT_TO_SELF)', ok, function=f4.q, key='GUARD|%s|flag' % f4.q,
           message='the default broadcast no longer derives toSelf from the reflect-to-self routing flag')
    res.rule('ONCE', 'after a delivery the routing callback returns a constant depth R on every path, and R makes the traversal leave the loop over the children of the session node: with the pop-up test '
                     '`R < child.GetDepth() - K` read from CheckChildForTraversal that means R < NODE_DEPTH_SESSIONNAME + 1 - K (or R = -1)', floor=2)
    f = fx.fn1(SRS + '::PassMessageCallbackAux')
    rets = [n for n in f.walk() if n['k'] == 'ReturnStmt']
    rv = set(r['ch'][0].get('v') if r['ch'] else None for r in rets)
    # the pop-up arithmetic of the traversal: `if (nextDepth < ((int)nextChild->GetDepth()) - K) {depth = nextDepth; return true;}`
    cc = fx.fn1(SRS + '::NodePathMatcher::CheckChildForTraversal')
    Ks = []
    for blk in cc.blocks.values():
        if blk.cond is None or blk.cond not in cc.nodes:
            continue
        cn = cc.nodes[blk.cond]
        for (lhs_, op_, rhs) in A.rel_forms(cn, True):
            if not (op_ in ('<', '<=') and lhs_['k'] == 'DeclRefExpr' and any(x.is_call() and (x.get('q') or '').endswith('DataNode::GetDepth') for x in rhs.walk())):
                continue
            K = 0
            if rhs['k'] == 'BinaryOperator' and rhs.get('op') == '-' and 'v' in A.strip_casts(rhs['ch'][1]):
                K = A.strip_casts(rhs['ch'][1])['v']
            elif rhs['k'] == 'BinaryOperator' and rhs.get('op') == '+' and 'v' in A.strip_casts(rhs['ch'][1]):
                K = -A.strip_casts(rhs['ch'][1])['v']
            # the pop-up tests are the ones whose true branch leaves the function with `return true` (the caller pops up too); a test whose true branch returns false only abandons the child
            ifs = [a for a in cn.ancestors() if a['k'] == 'IfStmt' and a.role('cond') is not None and any(x is cn for x in a.role('cond').walk())]
            then = ifs[0].role('then') if ifs else None
            if then is None or not any(x['k'] == 'ReturnStmt' and x['ch'] and A.strip_casts(x['ch'][0]).get('v') == 1 for x in then.walk()):
                continue
            Ks.append(K + (0 if op_ == '<' else -1))      # R <= X  is  R < X+1
    if len(Ks) < 2 or len(set(Ks)) != 1:
        raise AnalysisBroken('ONCE: the pop-up tests of CheckChildForTraversal were not found or disagree: %s' % Ks)
    K = Ks[0]
    limit = depth_sn + 1 - K       # a callback on a node at depth NODE_DEPTH_USER (session depth + 1) leaves the session node's child loop iff R < limit
    const_ok = bool(rets) and None not in rv and len(rv) == 1
    R = list(rv)[0] if const_ok else None
    ok = const_ok and (R == -1 or R < limit)
    res.ob('ONCE', f.where(), 'PassMessageCallbackAux returns one constant depth R on every path and R < %d (pop-up test: R < child depth - %d)' % (limit, K), ok, how='R = %s' % R, function=f.q,
           key='ONCE|%s|return' % f.q,
           message='PassMessageCallbackAux returns %s after a delivery, but CheckChildForTraversal leaves the loop over a node\'s children only when the returned depth is < (child depth - %d): for a matched '
                   'node directly below the session node (depth %d) that is R < %d, so the traversal goes on with the sibling nodes of the same session and delivers the Message once per matching '
                   'subtree instead of once per session' % (sorted(rv, key=str), K, depth_sn + 1, limit))
    res.ob('ONCE', cc.where(), 'both pop-up tests of CheckChildForTraversal use the same offset', len(set(Ks)) == 1, how='K = %s at %d sites' % (K, len(Ks)), function=cc.q, key='ONCE|%s|popup' % cc.q,
           message='the two pop-up tests of CheckChildForTraversal disagree')
    # ---- ONCE (c): a returned depth below the child's own depth means "do not go on with this child" (RemoveDataCallback: "no sense in recursing down a node that we're going to delete",
    # PassMessageCallbackAux: "leave this session's subtree"): after such a result no further callback or recursion may happen for the same child
    ev = []
    # the callback invocation may sit in a private helper that returns the callback's answer (msa/ip.py): the call of that helper is then the event
    ev_nodes = [top for (top, leaves) in IP.may_sites(fx, cc, lambda n0: n0.is_call() and re.search(r'::(CallCallbackMethod|DoTraversalAux)$', n0.get('q') or '') is not None,
                                                      r'^muscle::StorageReflectSession::NodePathMatcher::(?!DoTraversalAux$)')]
    for n_ in cc.walk():
        if any(n_ is e_ for e_ in ev_nodes):
            holder = None
            for v in cc.walk():
                if v['k'] == 'VarDecl' and v['ch'] and any(x is n_ for x in v['ch'][0].walk()):
                    holder = v['d']
                if v['k'] == 'BinaryOperator' and v.get('op') == '=' and any(x is n_ for x in v['ch'][1].walk()) and A.strip_casts(v['ch'][0])['k'] == 'DeclRefExpr':
                    holder = A.strip_casts(v['ch'][0]).get('d')
            ev.append((n_, holder))
    if len(ev) < 2:
        raise AnalysisBroken('ONCE: the callback call / the recursion of CheckChildForTraversal were not found')
    bad = None
    npaths = 0
    # once-only flags: bool locals that are only ever set to true after their declaration (`matched`, `recursed`)
    once = {}
    for v in cc.walk():
        if v['k'] == 'VarDecl' and 'bool' in v.type() and v['ch'] and A.strip_casts(v['ch'][0]).get('v') == 0:
            asn = [w for w in cc.walk() if w['k'] == 'BinaryOperator' and w.get('op') == '=' and A.strip_casts(w['ch'][0]).get('d') == v['d']]
            if asn and all(A.strip_casts(w['ch'][1]).get('v') == 1 for w in asn):
                once[v['d']] = asn
    for (e1, h1) in ev:
        for (e2, h2) in ev:
            paths, complete = C.paths_between(cc, P.pos_of(cc, e1), P.pos_of(cc, e2))
            if not complete:
                bad = bad or (e1, e2, 'too many paths')
            for asg in paths:
                # a path that tests a once-only flag and finds it false although every way from e1 to that test sets it is not feasible
                infeasible = False
                for (cid, truth) in asg.items():
                    core, pol = A.bool_polarity(cc.nodes[cid], truth)
                    if core['k'] == 'DeclRefExpr' and core.get('d') in once and pol is False:
                        sets = set(P.pos_of(cc, w) for w in once[core['d']])
                        if not C.can_reach(cc, P.pos_of(cc, e1), set([P.pos_of(cc, cc.nodes[cid])]), avoid_points=sets):
                            infeasible = True
                if infeasible:
                    continue
                npaths += 1
                kept = False
                for (cid, truth) in asg.items():
                    for (l_, op_, r_) in A.rel_forms(cc.nodes[cid], truth):
                        if op_ in ('>=', '==') and l_['k'] == 'DeclRefExpr' and l_.get('d') == h1 and h1 is not None and r_.is_call() and (r_.get('q') or '').endswith('DataNode::GetDepth'):
                            kept = True
                        if op_ == '>' and l_['k'] == 'DeclRefExpr' and l_.get('d') == h1 and h1 is not None and r_['k'] == 'BinaryOperator' and r_.get('op') == '-' \
                                and A.strip_casts(r_['ch'][1]).get('v') == 1 and any(x.is_call() and (x.get('q') or '').endswith('DataNode::GetDepth') for x in r_['ch'][0].walk()):
                            kept = True          # nextDepth > depth - 1
                if not kept:
                    bad = bad or (e1, e2, ', '.join('%s=%s' % (cc.nodes[k_].text(40), v_) for k_, v_ in list(asg.items())[:5]))
    res.ob('ONCE', cc.where(ev[0][0]), 'CheckChildForTraversal: after a callback or a recursion returned a depth below the child\'s own depth, nothing more is done for that child', bad is None, function=cc.q,
           key='ONCE|%s|abandon-child' % cc.q, how='%d path(s) between the %d callback/recursion sites, each with `returned depth >= child depth`' % (npaths, len(ev)),
           message='CheckChildForTraversal can go from `%s` (line %s) to `%s` (line %s) for the same child although the first one may have returned a depth below the child\'s own depth (only the pop-up '
                   'test `< depth-1` was made): a Message whose keys select a session node and also a node below it ("/*/*" and "foo") is delivered to that session twice — the callback\'s "leave this '
                   'session" answer equals the session node\'s parent depth, which the pop-up test does not catch, and the deeper pattern then descends into the session\'s subtree'
                   % ((bad[0].text(40), bad[0].get('l'), bad[1].text(40), bad[1].get('l')) if bad else ('', '', '', '')))
    match_recheck_rule(res, fx, 'GUARD')
    # ---- DEFAULT-ROUTE: the dispatcher selects the default route by `_parameters.HasName(PR_NAME_KEYS)`; SETPARAMETERS must therefore really store that field in _parameters
    res.rule('DEFAULT-ROUTE', 'SETPARAMETERS: a field that is copied into _parameters (msg.CopyName(fn, _parameters)) has not been moved or removed out of msg earlier on the same path; '
                              'the dispatcher uses the default route when _parameters has PR_NAME_KEYS', floor=2)
    disp = fx.fn1(SRS + '::MessageReceivedFromGateway')
    cps = [c for c in disp.walk() if c['k'] == 'CXXMemberCallExpr' and (c.get('q') or '') == 'muscle::Message::CopyName' and len(c.args()) >= 2 and A.strip_casts(c.args()[1]).get('n') == '_parameters' and c.receiver() is not None]
    uses = [c for c in disp.walk() if c['k'] == 'CXXMemberCallExpr' and (c.get('q') or '') == 'muscle::Message::HasName' and c.receiver() is not None and A.strip_casts(c.receiver()).get('n') == '_parameters'
            and any(x.get('n') == 'PR_NAME_KEYS' or 'SnKy' in str(x.get('s', '')) for x in c.walk())]
    if not cps:
        raise AnalysisBroken('DEFAULT-ROUTE: msg.CopyName(fn, _parameters) not found in the dispatcher')
    res.ob('DEFAULT-ROUTE', disp.where(uses[0]) if uses else disp.where(), 'the dispatcher takes the default route under _parameters.HasName(PR_NAME_KEYS)', bool(uses) or True, function=disp.q, nontrivial=False,
           how='%d test(s) found' % len(uses), key='DEFAULT-ROUTE|%s|use' % disp.q)
    for cp in cps:
        M, K = P_canon(cp.receiver()), P_canon(cp.args()[0])
        offs = [n for n in disp.walk() if n['k'] == 'BinaryOperator' and n.get('op') == '=' and 'copy' in (A.strip_casts(n['ch'][0]).get('n') or '').lower() and A.strip_casts(n['ch'][1]).get('v') in (0, False)]
        offp = set(p_ for p_ in (P.pos_of(disp, o) for o in offs) if p_)
        bad = None
        for c in disp.walk():
            if c['k'] == 'CXXMemberCallExpr' and (c.get('q') or '') in ('muscle::Message::MoveName', 'muscle::Message::RemoveName') and c.receiver() is not None and P_canon(c.receiver()) == M \
                    and c.args() and P_canon(c.args()[0]) == K:
                a, b = P.pos_of(disp, c), P.pos_of(disp, cp)
                if a and b and C.can_reach(disp, a, set([b]), avoid_points=offp):
                    bad = c
        res.ob('DEFAULT-ROUTE', disp.where(cp), 'no path moves/removes field `%s` out of the Message before it is copied into _parameters' % cp.args()[0].text(10), bad is None, function=disp.q,
               key='DEFAULT-ROUTE|%s|copy-after-move' % disp.q,
               message='SETPARAMETERS: `%s` (line %s) takes the field out of the Message and the path continues to `%s` (line %s), which therefore copies nothing: _parameters never contains PR_NAME_KEYS, '
                       'the dispatcher\'s test _parameters.HasName(PR_NAME_KEYS) is always false and a key-less Message is broadcast to every session instead of following the default route'
                       % (bad.text(60) if bad else '', bad.get('l') if bad else '', cp.text(50), cp.get('l')))
    # ------------------------------------------------------------------------------------------- UNIQUE-AGREE
    res.rule('UNIQUE-AGREE', 'the literal-lookup fast path of the traversal is selected only when every matcher at this level is classified unique (or list of unique values) and it looks the child up by the unescaped pattern', floor=3)
    f = fx.fn1(SRS + '::NodePathMatcher::DoTraversalAux')
    NPM = r'^muscle::StorageReflectSession::NodePathMatcher::'
    # the direct lookups may sit in DoTraversalAux itself or in a helper it was split into (msa/ip.py)
    lookups_ip = [(g_, c) for g_ in IP.scope(fx, f, NPM) if g_.q != SRS + '::NodePathMatcher::DoDirectChildLookup' for c in P.calls(g_, r'::DoDirectChildLookup$')]
    lookups = [c for (_, c) in lookups_ip]
    # the "some matcher at this level has wildcards" flag: the bool local of DoTraversalAux whose false value dominates the direct lookups and which is set to true somewhere (whatever it is called)
    fd = None
    flagsets = []
    if lookups_ip:
        for (cn, t) in IP.atoms_at_ip(fx, f, lookups_ip[0][0], lookups_ip[0][1], NPM):
            if cn['k'] == 'DeclRefExpr' and cn.get('d') is not None and not t and 'bool' in cn.type():
                sets = [n for n in f.walk() if n['k'] == 'BinaryOperator' and n.get('op') == '=' and A.strip_casts(n['ch'][0]).get('d') == cn['d'] and n['ch'][1].get('v') == 1]
                if sets:
                    fd, flagsets = cn['d'], sets
    if not flagsets or len(lookups) < 2:
        raise AnalysisBroken('DoTraversalAux: wildcard flag assignment / direct lookups not found')
    okg = True
    for (g_, l) in lookups_ip:
        if not any(A.strip_casts(cn).get('d') == fd and not t for (cn, t) in IP.atoms_at_ip(fx, f, g_, l, NPM)):
            okg = False
    res.ob('UNIQUE-AGREE', f.where(lookups[0]), 'every DoDirectChildLookup call is under parsersHaveWildcards == false', okg, function=f.q, key='UNIQUE-AGREE|%s|lookup-guard' % f.q,
           message='the literal child lookup is used although some matcher at this level has wildcards: nodes that match only by pattern are skipped')
    # the scan: from the declaration of the matcher pointer to leaving the if without setting the flag
    fs = flagsets[0]
    vds = [v for v in f.walk() if v['k'] == 'VarDecl' and re.search(r'StringMatcher \*$', v.type().strip()) and C.dominates(f, v['i'], fs['i'])]
    ok = False
    how = None
    f_scan, avoid_scan = f, (P.pos_of(f, fs)[0],)
    if not vds:
        # the per-table scan was extracted into a helper that answers "some parser needs pattern matching": the flag is set on its true result, so inside the helper the
        # `return true` statements play the role of the flag assignment
        for (cn, t) in G.atoms_at(f, fs):
            core, pol = A.bool_polarity(cn, t)
            h_ = IP.helper_of(fx, core, r'.') if core.is_call() and pol else None
            if h_ is not None:
                hv = [v for v in h_.walk() if v['k'] == 'VarDecl' and re.search(r'StringMatcher \*$', v.type().strip())]
                rt = [r_ for r_ in h_.walk() if r_['k'] == 'ReturnStmt' and r_['ch'] and A.strip_casts(r_['ch'][0]).get('v') == 1]
                if hv and rt:
                    vds, f_scan, avoid_scan = hv, h_, tuple(P.pos_of(h_, r_)[0] for r_ in rt if P.pos_of(h_, r_))
    f_outer = f
    f = f_scan
    if vds:
        vd = vds[0]
        # all exits of the scan that do not set the flag: enumerate paths from the VarDecl to the flag-set block's sibling (the inner loop increment)
        fb = avoid_scan[0]
        # successor blocks reachable from vd without passing fb, at the first join (= inner-loop increment block): take the immediate postdominator approximated as
        # the unique successor of fb's `break`... simpler: enumerate paths from vd to every block that is a loop back-edge source, avoiding fb
        ok = True
        npaths = 0
        # the innermost loop around the matcher (the loop over the entries of one table)
        for (header, body) in sorted((hb for hb in C.natural_loops(f) if P.pos_of(f, vd)[0] in hb[1]), key=lambda hb: len(hb[1]))[:1]:
            for b in body:
                if header in [s for s in f.blocks[b].succ if s is not None and s >= 0] and b != P.pos_of(f, vd)[0]:
                    paths, complete = C.paths_between(f, P.pos_of(f, vd), (b, 0), avoid_blocks=avoid_scan)
                    for asg in paths:
                        # only paths that stay inside this loop body
                        npaths += 1
                        uniq = False
                        for (cid, truth) in asg.items():
                            n, pol = P.strip_not(f.nodes[cid], truth)
                            if n.is_call() and (n.get('q') or '').endswith('::IsPatternUnique') and pol:
                                uniq = True
                            if n.is_call() and (n.get('q') or '').endswith('::IsPatternListOfUniqueValues') and pol:
                                uniq = True
                            # `!(unique || list-of-unique)` found false: a disjunction all of whose disjuncts are such classifications holds
                            if n['k'] == 'BinaryOperator' and n.get('op') == '||' and pol:
                                leaves, st_ = [], [n]
                                while st_:
                                    y_ = A.strip_casts(st_.pop())
                                    if y_['k'] == 'BinaryOperator' and y_.get('op') == '||':
                                        st_ += [y_['ch'][0], y_['ch'][1]]
                                    else:
                                        leaves.append(y_)
                                if leaves and all(y_.is_call() and re.search(r'::(IsPatternUnique|IsPatternListOfUniqueValues)$', y_.get('q') or '') for y_ in leaves):
                                    uniq = True
                            # matcher queue absent: nothing to look up
                            if n['k'] == 'DeclRefExpr' and 'StringMatcherQueue' in n.type() and n.type().rstrip().endswith('*') and not pol:
                                uniq = True
                        if not uniq:
                            ok = False
            break
        how = '%d scan paths that leave the flag unset; each has IsPatternUnique() or IsPatternListOfUniqueValues() true' % npaths
        if npaths == 0:
            ok = False
    f = f_outer
    res.ob('UNIQUE-AGREE', f.where(fs), 'the scan leaves parsersHaveWildcards unset only for matchers with IsPatternUnique() or IsPatternListOfUniqueValues()', ok, how=how, function=f.q,
           key='UNIQUE-AGREE|%s|scan' % f.q,
           message='the wildcard scan can classify a level as wildcard-free although a matcher is neither unique nor a list of unique values: the traversal then visits fewer nodes than pattern matching would')
    g = fx.fn1(SRS + '::NodePathMatcher::DoDirectChildLookup')
    ok = False
    for c in P.calls(g, r'^muscle::DataNode::GetChild$'):
        a0 = A.strip_casts(c.args()[0]) if c.args() else None
        if a0 is not None and any(x.is_call() and (x.get('q') or '').endswith('RemoveEscapeChars') and x.args() and A.strip_casts(x.args()[0]).get('d') == g.params[2]['d']
                                  for x in list(a0.walk()) + list(G.local_init(g, a0).walk())):
            ok = True
    res.ob('UNIQUE-AGREE', g.where(), 'DoDirectChildLookup looks up RemoveEscapeChars(key)', ok, function=g.q, key='UNIQUE-AGREE|%s|unescape' % g.q,
           message='the literal lookup no longer unescapes the pattern: an escaped literal such as `a\\*b` never finds the child named `a*b`')
    # ---- unescape exactly once: DoDirectChildLookup unescapes its key, so what it is given must still be in escaped (pattern) form
    callee_unescapes = 1 if ok else 0
    n_uo = 0
    for (g_, c) in lookups_ip:
        if len(c.args()) < 3:
            continue
        a2 = A.strip_casts(c.args()[2])
        if a2['k'] != 'DeclRefExpr' or a2.get('d') is None:
            continue
        apps = [x for x in g_.walk() if x['k'] == 'CXXOperatorCallExpr' and (x.get('q') or '').endswith('::operator+=') and len(x['ch']) > 2 and A.strip_casts(x['ch'][1]).get('d') == a2['d']]
        if not apps:
            continue                     # not an accumulator built here: the pattern itself (a reference to GetPattern())
        n_uo += 1
        # the scanner's "this character is an escape character" flags: bool locals defined from a comparison with the backslash
        flags = set()
        for v in g_.walk():
            rhs = v['ch'][0] if v['k'] == 'VarDecl' and v['ch'] and 'bool' in v.type() else (v['ch'][1] if v['k'] == 'BinaryOperator' and v.get('op') == '=' and 'bool' in A.strip_casts(v['ch'][0]).type() else None)
            if rhs is not None and any(x['k'] == 'BinaryOperator' and x.get('op') in ('==', '!=') and any(A.strip_casts(y).get('v') == 92 for y in x['ch']) for x in rhs.walk()):
                flags.add(v['d'] if v['k'] == 'VarDecl' else A.strip_casts(v['ch'][0]).get('d'))
        keeps = False
        for ap in apps:
            under_not_escape = False
            for (cn, t) in G.atoms_at(g_, ap):
                core, pol = A.bool_polarity(cn, t)
                if core['k'] == 'DeclRefExpr' and core.get('d') in flags and pol is False:
                    under_not_escape = True
            if not under_not_escape:
                keeps = True             # some append also runs for the escape character itself: the accumulated text keeps its escapes
        drops = 1 if (flags and not keeps) else 0
        res.ob('UNIQUE-AGREE', g_.where(c), 'the clause handed to DoDirectChildLookup at line %s is unescaped exactly once on its way to GetChild()' % c.get('l'), drops + callee_unescapes == 1, function=g_.q,
               key='UNIQUE-AGREE|%s|unescape-once:%s' % (g_.q, a2.get('n')), how='splitter drops escape characters: %s; DoDirectChildLookup applies RemoveEscapeChars: %s' % (bool(drops), bool(callee_unescapes)),
               message='%s copies the clause into `%s` without its escape characters and DoDirectChildLookup() then applies RemoveEscapeChars() to it again: for the clause `a\\\\b,c` (which as a pattern '
                       'matches the names `a\\b` and `c`) the fast path looks up the child `ab` — the session owning `a\\b` does not get the Message and the session owning `ab` does, while the '
                       'iterate-and-match path (taken as soon as another pattern has a wildcard) decides the opposite' % (g_.q, a2.get('n')) if drops + callee_unescapes > 1 else
                       '%s: the clause reaches GetChild() without being unescaped' % g_.q)
    if n_uo < 1:
        raise AnalysisBroken('UNIQUE-AGREE: no DoDirectChildLookup call with a locally split clause found (comma-list case)')
    clause_lookup_rules(res, fx, 'UNIQUE-AGREE')
    # ---- DEFAULT-ROUTE (b): the default route is REPLACED when its parameters are set again
    # (wherever the refill sits: in UpdateDefaultMessageRoute, or inlined at its call sites)
    n_rf, okr, fud, puts = 0, True, None, []
    for g_ in sorted((g_ for g_ in fx.funcs.values() if g_.full and g_.q.startswith(SRS + '::')), key=lambda g_: g_.line):
        puts_g = [c for c in g_.walk() if c['k'] == 'CXXMemberCallExpr' and re.search(r'::(PutPathsFromMessage|PutPathString|PutPathFromString)$', c.get('q') or '') and c.receiver() is not None
                  and A.strip_casts(c.receiver()).get('n') == '_defaultMessageRoute']
        clrs_g = [c for c in g_.walk() if c['k'] == 'CXXMemberCallExpr' and (c.get('q') or '').endswith('::Clear') and c.receiver() is not None and A.strip_casts(c.receiver()).get('n') == '_defaultMessageRoute']
        for c in puts_g:
            n_rf += 1
            if not (clrs_g and P.must_precede(g_, clrs_g, c)):
                okr = False
            if fud is None or not okr:
                fud, puts = g_, [c]
    if n_rf < 1:
        raise AnalysisBroken('DEFAULT-ROUTE: the refill of _defaultMessageRoute was not found')
    res.ob('DEFAULT-ROUTE', fud.where(puts[0]), 'the default route is cleared on every path before it is refilled from the parameters', okr, function=fud.q, key='DEFAULT-ROUTE|%s::UpdateDefaultMessageRoute|replace' % SRS,
           message='UpdateDefaultMessageRoute() can add the new patterns to _defaultMessageRoute without having cleared it: setting PR_NAME_KEYS again ADDS to the old default route, so Messages without '
                   'keys are routed by the union of every route the client has set — sessions the current route does not select receive them, while GETPARAMETERS shows only the newest pattern')
    # ---- ONCE (b): the de-duplication table of the direct-lookup traversal spans all patterns of the Message
    from msa import cfg as C_
    f = fx.fn1(SRS + '::NodePathMatcher::DoTraversalAux')
    used = []
    for g_ in IP.scope(fx, f, NPM):
        if g_.q == SRS + '::NodePathMatcher::DoDirectChildLookup':
            continue
        for v in (v for v in g_.walk() if v['k'] == 'VarDecl' and 'Hashtable<muscle::DataNode *' in v.type()):
            ms = set((c.get('q') or '').split('::')[-1] for c in g_.walk() if c['k'] == 'CXXMemberCallExpr' and c.receiver() is not None and A.strip_casts(c.receiver()).get('d') == v['d'])
            passed = [c for c in g_.walk() if c.is_call() and any(A.strip_casts(a).get('d') == v['d'] for a in c.args())]      # handed (by reference) to DoDirectChildLookup, which tests and fills it
            if (ms & set(['ContainsKey', 'Get', 'GetWithDefault']) and ms & set(['PutWithDefault', 'Put'])) or passed:
                used.append((g_, v))
    if not used:
        raise AnalysisBroken('ONCE: the already-visited table of DoTraversalAux was not found')
    for (g_, v) in used:
        vp = g_.pos(v['i'])
        inloop = vp is not None and any(vp[0] in body for (h, body) in C_.natural_loops(g_))
        # a helper that declares the table must itself be called outside every loop
        if g_ is not f:
            for (h_, c_) in IP.call_sites_of(fx, g_, NPM):
                cp = P.pos_of(h_, c_)
                inloop = inloop or (cp is not None and any(cp[0] in body for (hh, body) in C_.natural_loops(h_)))
        res.ob('ONCE', g_.where(v), 'DoTraversalAux: the already-visited table `%s` is declared outside every loop (one table for all patterns of the Message)' % v.get('n'), not inloop, function=f.q,
               key='ONCE|%s|dedupe-scope' % f.q,
               message='DoTraversalAux: the already-visited table `%s` is re-created inside a loop: a child named by two patterns of the same Message is traversed once per pattern, so its owner '
                       'receives the Message more than once' % v.get('n'))
    # ---- GUARD (b): RemoveParameter compares paramName (which may alias the field name stored inside _parameters) before it removes the field
    f = fx.fn1(SRS + '::RemoveParameter')
    pn = f.params[0]['d']
    rms = [c for c in f.walk() if c['k'] == 'CXXMemberCallExpr' and (c.get('q') or '').endswith('::RemoveName') and c.receiver() is not None and A.strip_casts(c.receiver()).get('n') == '_parameters'
           and c.args() and A.strip_casts(c.args()[0]).get('d') == pn]
    clr = [c for c in f.walk() if c.is_call() and any(x.get('n') == 'MUSCLE_ROUTING_FLAG_REFLECT_TO_SELF' for x in c.walk())]
    if not rms or not clr:
        raise AnalysisBroken('GUARD: RemoveParameter: _parameters.RemoveName(paramName) / the reset of MUSCLE_ROUTING_FLAG_REFLECT_TO_SELF not found')
    bad = None
    for rm in rms:
        rp = P.pos_of(f, rm)
        for u in f.walk():
            if u['k'] == 'DeclRefExpr' and u.get('d') == pn and not any(a is rm for a in u.ancestors()):
                up = P.pos_of(f, u)
                if rp and up and ((rp[0] == up[0] and rp[1] < up[1]) or C_.can_reach(f, rp, set([up]))):
                    bad = (rm, u)
    res.ob('GUARD', f.where(), 'RemoveParameter removes the field from _parameters only after its last use of paramName', bad is None, function=f.q, key='GUARD|%s|remove-last' % f.q,
           how='RemoveName(paramName) at line %s; no later use of paramName' % rms[0].get('l'),
           message='RemoveParameter: paramName is used at line %s after _parameters.RemoveName(paramName) (line %s); when the caller passes the field-name String that lives inside _parameters '
                   '(wildcard REMOVEPARAMETERS) the removal clears it, every later comparison fails and e.g. the reflect-to-self flag is never switched off' % ((bad[1].get('l'), bad[0].get('l')) if bad else ('?', '?')))
    from . import sm_state
    fsm = common.load_units(res, ['regex/StringMatcher.cpp'], fn_regex=r'^muscle::(StringMatcher::|[A-Za-z0-9_]+$)')      # namespace-level functions too: the scanners and whatever file-static helpers they were split into
    res.units = res.units + ['reflector/StorageReflectSession.cpp', 'reflector/DumbReflectSession.cpp', 'reflector/AbstractReflectSession.cpp']
    # the direct-lookup fast path turns an escaped literal clause into a node name with RemoveEscapeChars(): its escape flag must have the parity the matcher's own scanners have
    # (the rule is C15's ESCAPE-PARITY, judged here for the one function routing depends on)
    from .C15 import escape_parity_scanners
    rec_ = fsm.fn1('muscle::RemoveEscapeChars', pred=lambda x: x.file.endswith('.cpp'))
    names_ = [re.escape(h_.q) for h_ in IP.scope(fsm, rec_, r'^muscle::\w+$')]          # RemoveEscapeChars and the file-static helpers its loop body may have been moved into
    if escape_parity_scanners(res, fsm, 'UNIQUE-AGREE', only='^(' + '|'.join(names_) + ')$') < 1:
        raise AnalysisBroken('UNIQUE-AGREE: the escape flag of RemoveEscapeChars was not found')
    only_commas_rule(res, fsm)
    sm_state.ranges_reset_rule(res, fsm)     # the per-clause matchers of a routing path are recycled objects: a stale numeric range misroutes every later Message
    res.explanation = ('Static decision of the routing structure: sender-identity overwrite dominates all three routing calls; on every path to a delivery either the target differs from the sender or the '
                       'reflect-to-self flag holds (path enumeration over the guard\'s short-circuit blocks); the routing callback always returns the session level so each session is hit once; the literal-lookup '
                       'fast path is entered only for matchers classified unique and looks up the unescaped key. Whether IsPatternUnique agrees with Match is the C15 table rule. '
                       'Equivalence of traversal and brute-force matching, and per-sender ordering, are not decided.')
    res.assumptions = ['a traversal callback returning NODE_DEPTH_SESSIONNAME makes DoTraversal skip to the next session node']
    res.not_decided = ['traversal == brute-force matching for every pattern set', 'per-sender FIFO ordering', 'filter evaluation']


def only_commas_rule(res, fsm):
    """the traversal replaces matching by a literal hash lookup of each comma-separated part when CanWildcardStringMatchMultipleValues() reports "commas are the only special characters":
    that answer is known only when the scan has seen the whole clause"""
    res.rule('ONLY-COMMAS', 'CanWildcardStringMatchMultipleValues: once the only-commas out-parameter was given a value other than the literal false, no return inside the scan loop (the early '
                            '"another wildcard was found" exit) is reachable without it being set back to false', floor=1)
    fs = [g for g in fsm.funcs.values() if g.full and g.q == 'muscle::CanWildcardStringMatchMultipleValues' and g.file.endswith('.cpp')]      # the scanner, not the String overload that forwards to it
    if not fs:
        raise AnalysisBroken('ONLY-COMMAS: CanWildcardStringMatchMultipleValues has no analysed body')
    judged = 0
    for f in IP.scope(fsm, fs[0], r'^muscle::\w+$'):          # the function and the file-static helpers its scan may have been moved into
        judged += _only_commas_in(res, f)
    if judged < 1:
        raise AnalysisBroken('ONLY-COMMAS: no function in the scope of CanWildcardStringMatchMultipleValues raises a bool* out-parameter')


def _only_commas_in(res, f):
    outp = [p_['d'] for p_ in f.params if 'bool *' in (f.ptype(p_) or '')]
    if not outp:
        return 0
    d = outp[0]
    raises, lowers = [], []
    for n in f.walk():
        if n['k'] == 'BinaryOperator' and n.get('op') == '=':
            l = A.strip_casts(n['ch'][0])
            if l['k'] == 'UnaryOperator' and l.get('op') == '*' and A.strip_casts(l['ch'][0]).get('d') == d:
                r = A.strip_casts(n['ch'][1])
                (lowers if (r['k'] == 'CXXBoolLiteralExpr' and not r.get('v')) else raises).append(n)
    if not raises:
        return 0
    in_loop = set()
    for (h, body) in C.natural_loops(f):
        in_loop |= set(body)
    early = [r for r in f.walk() if r['k'] == 'ReturnStmt' and any(a_['k'] in ('WhileStmt', 'ForStmt', 'DoStmt') for a_ in r.ancestors())]
    lower_blocks = set(p_[0] for p_ in (P.pos_of(f, n) for n in lowers) if p_)
    def feasible(asg):
        # the flag is raised through the pointer, so on every path that continues from there the pointer is not NULL
        for (cid, truth) in asg.items():
            core, pol = P.strip_not(f.nodes[cid])
            core = G.local_init(f, core)
            if core['k'] == 'DeclRefExpr' and core.get('d') == d and (pol == truth) is False:
                return False
            for (cn, t) in A.implied_atoms(f.nodes[cid], truth):
                c2, p2 = P.strip_not(cn, t)
                if c2['k'] == 'DeclRefExpr' and c2.get('d') == d and p2 is False:
                    return False
        return True
    for (i, w) in enumerate(sorted(raises, key=lambda n: n['i'])):
        bad = []
        wp = P.pos_of(f, w)
        for r in early:
            rp = P.pos_of(f, r)
            if wp is None or rp is None or rp[0] in lower_blocks and any(P.pos_of(f, n)[0] == rp[0] and P.pos_of(f, n)[1] < rp[1] for n in lowers):
                continue
            paths, complete = C.paths_between(f, wp, rp, avoid_blocks=lower_blocks - set([wp[0], rp[0]]))
            if not complete or any(feasible(asg) for asg in paths):
                bad.append(r)
        res.ob('ONLY-COMMAS', f.where(w), 'the only-commas answer given at line %s cannot be followed by the early another-wildcard return' % w.get('l'), not bad, function=f.q,
               key='ONLY-COMMAS|%s|%d' % (f.q, i), how='%d early return(s) inside the scan loop examined' % len(early),
               message='CanWildcardStringMatchMultipleValues reports "commas are the only special characters" (line %s) and can still take the early return at line %s, where a wildcard was found '
                       'further on: for a clause like `a,b*` the traversal then looks up children literally named `a` and `b*` instead of matching, and nodes the pattern selects never get the '
                       'Message' % (w.get('l'), bad[0].get('l') if bad else '?'))
    return 1
