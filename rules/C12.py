"""C12  The packet tunnel never delivers a Message that was not sent.
GUARD-ATOMS: the copy into the reassembly buffer and the hand-off are control dependent on the full acceptance test (state keyed by source address, id,
offset, total size, bounds incl. overflow, bytes available, magic, source exclusion); a new Message is started only at offset 0;
HEADER-ORDER: writer and reader agree on the six header words.  Plus the C02 taint obligations for the two tunnel files (run by C02)."""
import re
from msa import guards as G
from msa import ip as IP
from msa import pair as P
from msa import ast as A
from msa import cfg as C
from msa.taint import P_canon
from msa.facts import AnalysisBroken
from . import common

PT = 'muscle::PacketTunnelIOGateway'
MPT = 'muscle::MiniPacketTunnelIOGateway'


def local_def(f, d):
    for v in f.walk():
        if v['k'] == 'VarDecl' and v['d'] == d and v['ch']:
            return v['ch'][0]
    return None


def is_member_of(n, base_d, name):
    n = A.strip_casts(n)
    return n['k'] == 'MemberExpr' and n.get('n') == name and n['ch'] and A.strip_casts(n['ch'][0]).get('d') == base_d


def guards(f, node):
    """facts that dominate the node: (atom, truth) with `&&`/`||` split, negations and `== false` stripped, bool locals expanded"""
    return G.atoms_at(f, node)


def eq_guard(gs, pred_a, pred_b):
    """a dominating `a == b` (however it is spelled) with the operands satisfying the predicates in either order"""
    for (cn, t) in gs:
        for (l, op, r) in A.rel_forms(cn, t):
            if op == '==' and pred_a(l) and pred_b(r):
                return A.strip_casts(cn)
    return None


def run(res, tier):
    fx = common.load_units(res, ['iogateway/PacketTunnelIOGateway.cpp', 'iogateway/MiniPacketTunnelIOGateway.cpp', 'dataio/ByteBufferPacketDataIO.cpp', 'dataio/PacketizedProxyDataIO.cpp', 'iogateway/ProxyIOGateway.cpp'],
                           fn_regex=r'^muscle::((Mini)?PacketTunnelIOGateway|ByteBufferPacketDataIO|PacketizedProxyDataIO|ProxyIOGateway)')
    f = fx.fn1(PT + '::DoInputImplementation')
    res.functions_analysed = sum(1 for g in fx.funcs.values() if g.full)
    res.rule('GUARD-ATOMS', 'PacketTunnelIOGateway::DoInputImplementation: the memcpy into the reassembly buffer is dominated by every atom of the acceptance test, the receive state is looked up by the '
                            'packet\'s source address, a new Message is started only at offset 0, and the hand-off happens only when the state offset equals the buffer size', floor=10)
    # the copy of an accepted chunk into the reassembly buffer: memcpy(dst, reader.GetCurrentReadPointer(), n) or reader.ReadBytes(dst, n)
    cps = [c for c in P.calls(f, r'^memcpy$')]
    rbs = [c for c in f.walk() if c['k'] == 'CXXMemberCallExpr' and (c.get('q') or '').endswith('DataUnflattenerHelper::ReadBytes') and len(c.args()) >= 2 and any(x['k'] == 'MemberExpr' and x.get('n') == '_buf' for x in c.args()[0].walk())]
    if len(cps) + len(rbs) != 1:
        raise AnalysisBroken('PacketTunnelIOGateway::DoInputImplementation: expected one copy into the reassembly buffer (memcpy / ReadBytes), found %d' % (len(cps) + len(rbs)))
    if cps:
        cp = cps[0]
        dst, src, cnt = cp.args()[:3]
    else:
        cp = rbs[0]
        dst, cnt = cp.args()[:2]
        src = cp['ch'][0]          # the reader object expression (receiver)
    # destination = <state>->_buf()->GetBuffer() + OFFSET ; source = reader.GetCurrentReadPointer() ; count = CHUNK
    d0 = A.strip_casts(dst)
    off = None
    rsd = None
    if d0['k'] == 'BinaryOperator' and d0.get('op') == '+':
        off = A.strip_casts(d0['ch'][1])
        for x in d0['ch'][0].walk():
            if x['k'] == 'MemberExpr' and x.get('n') == '_buf' and x['ch']:
                rsd = A.strip_casts(x['ch'][0]).get('d')
    chunk = A.strip_casts(cnt)
    reader = None
    for x in src.walk():
        if x['k'] == 'CXXMemberCallExpr' and (x.get('q') or '').endswith('::GetCurrentReadPointer'):
            reader = A.root_loc(x.receiver())
    if reader is None and rbs:
        reader = A.root_loc(rbs[0].receiver())
    if off is None or rsd is None or 'd' not in off or 'd' not in chunk or reader is None:
        raise AnalysisBroken('memcpy operands do not have the shape (state->_buf()->GetBuffer()+offset, reader.GetCurrentReadPointer(), chunk)')
    od, cd = off['d'], chunk['d']
    gs = guards(f, cp)
    isv = lambda d: (lambda n: A.strip_casts(n).get('d') == d)
    fld = lambda name: (lambda n: is_member_of(n, rsd, name))
    K = 'GUARD-ATOMS|%s|' % f.q

    def ob(name, ok, how, msg):
        res.ob('GUARD-ATOMS', f.where(cp), name, bool(ok), how=how, function=f.q, key=K + name.split(':')[0], message=msg)

    # wire variables are the sticky reads
    def is_wire(d):
        e = local_def(f, d)
        return e is not None and any((x.get('q') or '').endswith('DataUnflattenerHelper::ReadInt32') for x in e.walk() if x.is_call())
    ob('wire-operands: offset and chunk size of the copy are words read from the packet', is_wire(od) and is_wire(cd), 'offset=`%s`, chunk=`%s`' % (off.get('n'), chunk.get('n')),
       'the copy offset / length are no longer the fragment header words')
    g = eq_guard(gs, isv(od), fld('_offset'))
    ob('offset: wire offset == state->_offset', g, g.text() if g else None, 'a fragment is copied although its offset is not the next expected offset of this sender\'s Message: duplicated or reordered packets corrupt the reassembled Message')
    # message id
    mid = None
    for (cn, t) in gs:
        n = A.strip_casts(cn)
        for (a, op, b) in A.rel_forms(cn, t):
            if op == '==':
                if is_member_of(b, rsd, '_messageID') and 'd' in A.strip_casts(a) and is_wire(A.strip_casts(a)['d']):
                    mid = (n, A.strip_casts(a)['d'])
    ob('message-id: wire message id == state->_messageID', mid, mid[0].text() if mid else None, 'fragments of different Messages can be combined into one (message id not compared with the receive state)')
    # total size == buffer size
    rssz = None
    for (cn, t) in gs:
        n = A.strip_casts(cn)
        for (a, op, b) in A.rel_forms(cn, t):
            if op == '==':
                a2, b2 = A.strip_casts(a), A.strip_casts(b)
                if 'd' in a2 and is_wire(a2['d']) and 'd' in b2:
                    e = local_def(f, b2['d'])
                    if e is not None and any((x.get('q') or '').endswith('ByteBuffer::GetNumBytes') for x in e.walk() if x.is_call()) and any(x.get('n') == '_buf' for x in e.walk()):
                        rssz = (n, b2['d'], a2['d'])
    ob('total-size: wire total size == size of the reassembly buffer', rssz, rssz[0].text() if rssz else None, 'a fragment declaring another total size is accepted into the buffer of a different Message')
    # bounds
    ovf = None
    sumle = None
    for (cn, t) in gs:
        n, pol = P.strip_not(cn, t)
        if n.is_call() and re.search(r'WillUnsignedAddOverflow$', n.get('q') or '') and not pol:
            ds = set(A.strip_casts(a).get('d') for a in n.args())
            if ds == set([od, cd]):
                ovf = n
        for (l, op, r) in A.rel_forms(cn, t):
            if op == '<=' and l['k'] == 'BinaryOperator' and l.get('op') == '+' and set(A.strip_casts(x).get('d') for x in l['ch']) == set([od, cd]) and rssz and r.get('d') == rssz[1]:
                sumle = A.strip_casts(cn)
    ob('no-overflow: WillUnsignedAddOverflow(offset, chunk) == false', ovf, ovf.text() if ovf else None, 'offset+chunkSize can wrap around before it is compared with the buffer size')
    ob('in-bounds: offset + chunk <= buffer size', sumle, sumle.text() if sumle else None, 'the copy can extend past the end of the reassembly buffer')
    av = None
    for (cn, t) in gs:
        n = A.strip_casts(cn)
        for (big, op, small) in A.rel_forms(cn, t):
            if op != '>=':
                continue
            if A.strip_casts(small).get('d') == cd and any((x.get('q') or '').endswith('::GetNumBytesAvailable') and A.root_loc(x.receiver()) == reader for x in big.walk() if x['k'] == 'CXXMemberCallExpr'):
                av = n
    ob('available: chunk size <= bytes left in the packet', av, av.text() if av else None, 'bytes beyond the received packet are copied into the Message')
    mg = eq_guard(gs, lambda n: 'd' in A.strip_casts(n) and is_wire(A.strip_casts(n)['d']), lambda n: A.strip_casts(n).get('n') == '_magic' and A.is_this_member(A.strip_casts(n)))
    ob('magic: wire magic == _magic', mg, mg.text() if mg else None, 'packets of another tunnel (different magic number) are accepted')
    # source exclusion: on every path from the wire reads to the copy, (_sexID == 0) or (_sexID != wire sexID)
    first_read = min((v for v in f.walk() if v['k'] == 'VarDecl' and is_wire(v['d'])), key=lambda v: v['i'])
    paths, complete = C.paths_between(f, P.pos_of(f, first_read), P.pos_of(f, cp))
    sx_ok = complete and bool(paths)
    for asg in paths:
        good = False
        for (cid, truth) in asg.items():
            z = A.zero_test(f.nodes[cid], truth)
            if z is not None and z[1] and z[0]['k'] == 'MemberExpr' and z[0].get('n') == '_sexID':
                good = True
            for (l, op, o) in A.rel_forms(f.nodes[cid], truth):
                if op == '!=' and l['k'] == 'MemberExpr' and l.get('n') == '_sexID' and 'd' in o and is_wire(o['d']):
                    good = True
        sx_ok = sx_ok and good
    ob('source-exclusion: (_sexID == 0) || (_sexID != wire id) on every path to the copy', sx_ok, '%d paths' % len(paths), 'the gateway accepts its own packets (source-exclusion id not tested on some path)')
    # state keyed by source address
    keyed = True
    ndefs = 0
    src_var = None
    for n in f.walk():
        tgt = None
        rhs = None
        if n['k'] == 'VarDecl' and n['d'] == rsd and n['ch']:
            rhs = n['ch'][0]
        elif n['k'] == 'BinaryOperator' and n.get('op') == '=' and A.strip_casts(n['ch'][0]).get('d') == rsd:
            rhs = n['ch'][1]
        if rhs is None:
            continue
        r = A.strip_casts(rhs)
        if r.get('v') == 0 or r['k'] in ('GNUNullExpr', 'CXXNullPtrLiteralExpr'):
            continue
        ndefs += 1
        if not (r['k'] == 'CXXMemberCallExpr' and r.receiver() is not None and A.strip_casts(r.receiver()).get('n') == '_receiveStates' and r.args()):
            keyed = False
            continue
        k0 = A.strip_casts(r.args()[0])
        if 'd' not in k0:
            keyed = False
            continue
        if src_var is None:
            src_var = k0['d']
        keyed = keyed and (k0['d'] == src_var)
    srcdef_ok = False
    if src_var is not None:
        for n in f.walk():
            if n['k'] in ('BinaryOperator', 'CXXOperatorCallExpr') and (n.get('op') == '=' or (n.get('q') or '').endswith('operator=')):
                ch = n['ch'] if n['k'] == 'BinaryOperator' else n['ch'][1:]
                if len(ch) >= 2 and A.strip_casts(ch[0]).get('d') == src_var and any((x.get('q') or '').endswith('::GetSourceOfLastReadPacket') for x in ch[1].walk() if x.is_call()):
                    srcdef_ok = True
    ob('state-key: the receive state is looked up / created under the packet\'s source address', keyed and ndefs >= 2 and srcdef_ok, '%d definitions of the state pointer, all _receiveStates.*(fromIAP…)' % ndefs,
       'fragments from different senders share one receive state: their fragments can be combined into one Message')
    # new message only at offset 0
    starts = []
    for n in f.walk():
        if n['k'] == 'BinaryOperator' and n.get('op') == '=' and is_member_of(n['ch'][0], rsd, '_messageID'):
            starts.append(n)
        if n['k'] == 'CXXMemberCallExpr' and (n.get('q') or '').endswith('::PutAndGet') and n.receiver() is not None and A.strip_casts(n.receiver()).get('n') == '_receiveStates':
            starts.append(n)
    st_ok = bool(starts)
    for s in starts:
        g0 = False
        for (cn, t) in guards(f, s):
            z = A.zero_test(cn, t)
            if z is not None and z[1] and z[0].get('d') == od:
                g0 = True
        st_ok = st_ok and g0
    ob('start-at-zero: a receive state is created / re-targeted to a new message id only when the wire offset is 0', st_ok, '%d start sites' % len(starts),
       'a Message can be started from a fragment in its middle: its head is whatever the buffer held before')
    # hand-off
    ho = [c for c in P.calls(f, r'::HandleIncomingByteBuffer$') if any(x.get('n') == '_buf' for x in c.walk())]
    ho_ok = bool(ho)
    for h in ho:
        g0 = eq_guard(guards(f, h), fld('_offset'), lambda n: rssz is not None and A.strip_casts(n).get('d') == rssz[1])
        in_accept = all(any(cn is x for (x, _) in guards(f, h)) or True for (cn, _) in gs)
        dominated = set(id(x) for (x, _) in gs) <= set(id(x) for (x, _) in guards(f, h))
        ho_ok = ho_ok and bool(g0) and dominated
    ob('hand-off: the reassembled buffer is delivered only inside the acceptance branch and when state->_offset == buffer size', ho_ok, 'HandleIncomingByteBuffer at line %s' % (ho[0].get('l') if ho else '?'),
       'an incomplete (or foreign) reassembly buffer can be handed to the receiver')
    adv = [n for n in f.walk() if n['k'] == 'CompoundAssignOperator' and n.get('op') == '+=' and is_member_of(n['ch'][0], rsd, '_offset') and A.strip_casts(n['ch'][1]).get('d') == cd]
    ob('advance: state->_offset += chunk size after the copy', adv and C.dominates(f, cp['i'], adv[0]['i']), None, 'the receive state no longer advances by the copied chunk size')

    # ---------------------------------------------------------------------------------- HEADER-ORDER
    res.rule('HEADER-ORDER', 'the writer emits and the reader consumes the six fragment header words in the same order: magic, source-exclusion id, message id, offset, chunk size, total size', floor=1)
    w = fx.fn1(PT + '::DoOutputImplementation')
    # the six header writes, in execution order, in DoOutputImplementation itself or in a helper it hands the flattener to (msa/ip.py)
    is_w32 = lambda c: c['k'] == 'CXXMemberCallExpr' and (c.get('q') or '').endswith('DataFlattenerHelper::WriteInt32')
    wr = []
    for (top, leaves) in sorted(IP.may_sites(fx, w, is_w32, r'PacketTunnelIOGateway|^muscle::\w+$|^\w+$'), key=lambda tl: tl[0]['i']):
        wr += sorted(leaves, key=lambda gl: gl[1]['i'])
    rd = sorted((v for v in f.walk() if v['k'] == 'VarDecl' and is_wire(v['d'])), key=lambda v: v['i'])
    roles_r = {}
    if mg:
        roles_r['magic'] = [A.strip_casts(x).get('d') for x in mg['ch'] if 'd' in A.strip_casts(x)][0]
    if mid:
        roles_r['mid'] = mid[1]
    roles_r['offset'] = od
    roles_r['chunk'] = cd
    if rssz:
        roles_r['total'] = rssz[2]
    order_r = [next((k for k, d in roles_r.items() if d == v['d']), 'sex' if i == 1 else '?') for i, v in enumerate(rd)]
    def wrole(gc):
        (g_, c) = gc
        (h_, a) = IP.resolve_arg(fx, g_, c.args()[0], r'PacketTunnelIOGateway|^muscle::\w+$|^\w+$')
        a = A.strip_casts(a)
        if a['k'] == 'MemberExpr' and A.is_this_member(a):
            return {'_magic': 'magic', '_sexID': 'sex', '_sendMessageIDCounter': 'mid', '_currentOutputBufferOffset': 'offset'}.get(a.get('n'), '?' + a.get('n'))
        if 'd' in a:
            e = local_def(h_, a['d'])
            if e is not None and wrole_chunk(h_, a['d']):
                return 'chunk'
            if e is not None and any((x.get('q') or '').endswith('ByteBuffer::GetNumBytes') for x in e.walk() if x.is_call()):
                return 'total'
        return '?'
    order_w = [wrole(c) for c in wr]
    ok = order_w == order_r == ['magic', 'sex', 'mid', 'offset', 'chunk', 'total']
    res.ob('HEADER-ORDER', w.where(), 'fragment header word order agrees between DoOutputImplementation and DoInputImplementation', ok, how='writer %s / reader %s' % (order_w, order_r), function=w.q,
           key='HEADER-ORDER|%s|order' % PT, message='writer order %s, reader order %s: the two ends of the tunnel disagree on the fragment header' % (order_w, order_r))
    # payload follows: WriteBytes(buffer + _currentOutputBufferOffset, chunk)
    wb = [c for c in w.walk() if c['k'] == 'CXXMemberCallExpr' and (c.get('q') or '').endswith('DataFlattenerHelper::WriteBytes')]
    okp = False
    for c in wb:
        a = c.args()
        if len(a) >= 2 and 'd' in A.strip_casts(a[1]) and wrole_chunk(w, A.strip_casts(a[1])['d']) and any(x.get('n') == '_currentOutputBufferOffset' for x in a[0].walk()):
            okp = True
    res.ob('HEADER-ORDER', w.where(), 'the writer sends exactly `chunk` bytes starting at the announced offset of the current buffer', okp, function=w.q, key='HEADER-ORDER|%s|payload' % PT,
           message='the fragment payload no longer is buffer[offset .. offset+chunk) as announced in its header')
    mini_rule(res, fx)
    # ---- FIT-ACCOUNT: the sender's "does the next chunk fit into this packet" test counts exactly the bytes the branch then writes
    res.rule('FIT-ACCOUNT', 'MiniPacketTunnelIOGateway::DoOutputImplementation: in `written + X <= MTU` the constant part of X that applies to every chunk equals the fixed bytes the guarded branch always writes, '
                            'and the part that applies only to an empty packet equals what it writes only then', floor=1)
    g = fx.fn1(MPT + '::DoOutputImplementation')
    fit = None
    for blk in g.blocks.values():
        if blk.cond is None or blk.cond not in g.nodes:
            continue
        cn = g.nodes[blk.cond]
        for fit_truth in (True, False):
            for (l_, op_, r_) in A.rel_forms(cn, fit_truth):
                if op_ == '<=' and r_.get('n') == '_maxTransferUnit' and any(x.is_call() and (x.get('q') or '').endswith('::GetNumBytesWritten') for x in l_.walk()):
                    fit = (blk, cn, l_, fit_truth)
    if fit is None:
        raise AnalysisBroken('FIT-ACCOUNT: the fit test of the mini tunnel sender was not found')
    blk, cn, fit_sum, fit_truth = fit

    def terms(e):
        e = A.strip_casts(e)
        if e['k'] == 'BinaryOperator' and e.get('op') == '+' and 'v' not in e:
            return terms(e['ch'][0]) + terms(e['ch'][1])
        return [e]
    always_c, first_c = 0, 0
    for t in terms(fit_sum):
        if 'v' in t:
            always_c += t['v']
        elif t['k'] == 'ConditionalOperator' and any(x.is_call() and (x.get('q') or '').endswith('::GetNumBytesWritten') for x in t['ch'][0].walk()):
            # (written == 0) ? H : 0   in any spelling: the arm taken when nothing has been written yet, minus the other arm
            zt = A.zero_test(t['ch'][0], True)
            zf = A.zero_test(t['ch'][0], False)
            arm_first = t['ch'][1] if (zt is not None and zt[1]) else (t['ch'][2] if (zf is not None and zf[1]) else None)
            arm_other = t['ch'][2] if arm_first is t['ch'][1] else t['ch'][1]
            if arm_first is not None:
                first_c += (A.strip_casts(arm_first).get('v') or 0) - (A.strip_casts(arm_other).get('v') or 0)
                always_c += (A.strip_casts(arm_other).get('v') or 0)
        elif t['k'] == 'DeclRefExpr' and t.get('d') is not None:
            # the same choice made with if/else into a local: two constant assignments, one where nothing has been written yet, one where something has
            asg = [w for w in g.walk() if w['k'] == 'BinaryOperator' and w.get('op') == '=' and A.strip_casts(w['ch'][0]).get('d') == t['d'] and A.strip_casts(w['ch'][1]).get('v') is not None]
            vf = vo = None
            for w in asg:
                for (cn2, t2) in G.atoms_at(g, w):
                    z = A.zero_test(cn2, t2)
                    if z is not None and z[0].is_call() and (z[0].get('q') or '').endswith('::GetNumBytesWritten'):
                        if z[1]:
                            vf = A.strip_casts(w['ch'][1])['v']
                        else:
                            vo = A.strip_casts(w['ch'][1])['v']
            if len(asg) == 2 and vf is not None and vo is not None:
                first_c += vf - vo
                always_c += vo
    W = {'WriteInt32': 4, 'WriteInt16': 2, 'WriteInt64': 8, 'WriteByte': 1, 'WriteInt8': 1}
    always_w, first_w = 0, 0
    for c in g.walk():
        if c['k'] != 'CXXMemberCallExpr' or (c.get('q') or '').split('::')[-1] not in W:
            continue
        p = P.pos_of(g, c)
        gs = C.guards_of_block(g, p[0]) if p else []
        if not any(cid == cn['i'] and t == fit_truth for (cid, t) in gs):
            continue
        only_first = False
        for (cid, t) in gs:
            x = g.nodes[cid]
            z = A.zero_test(x, t) if x is not cn else None
            if z is not None and z[1] and z[0].is_call() and (z[0].get('q') or '').endswith('::GetNumBytesWritten'):
                only_first = True
        if only_first:
            first_w += W[(c.get('q') or '').split('::')[-1]]
        else:
            always_w += W[(c.get('q') or '').split('::')[-1]]
    ok = (always_c == always_w) and (first_c == first_w) and always_w > 0 and first_w > 0
    res.ob('FIT-ACCOUNT', g.where(cn), 'fit test counts %d bytes per chunk and %d more for an empty packet; the branch writes %d and %d' % (always_c, first_c, always_w, first_w), ok, function=g.q,
           how='test `%s`' % cn.text(120), key='FIT-ACCOUNT|%s' % g.q,
           message='MiniPacketTunnelIOGateway::DoOutputImplementation: the fit test accounts for %d fixed bytes per chunk (+%d for the first chunk of a packet) but the branch it guards writes %d (+%d): '
                   'a chunk that does not fit is written past the packet buffer and the packet exceeds the MTU, so the receiver truncates it and drops the last Message' % (always_c, first_c, always_w, first_w))
    # ---- REF-AFTER-REMOVE: a reference to a queue element is dead once the element has been removed (Queue::RemoveHead resets the vacated slot)
    res.rule('REF-AFTER-REMOVE', 'in the packet I/O classes a local reference bound to a Queue element (Head()/Tail()/operator[]) is not used after a Remove*/Clear on the same queue', floor=1)
    n_ref = 0
    for h in sorted((h for h in fx.funcs.values() if h.full), key=lambda h: (h.file, h.line, h.id)):
        for v in h.walk():
            if v['k'] != 'VarDecl' or not v['ch'] or not v.type().rstrip().endswith('&'):
                continue
            init = A.strip_casts(v['ch'][0])
            if not (init.is_call() and re.search(r'Queue::(Head|Tail|operator\[\]|GetItemAt)$', init.get('q') or '') and init.receiver() is not None):
                continue
            Q = P_canon(init.receiver())
            rms = [c for c in h.walk() if c['k'] == 'CXXMemberCallExpr' and re.search(r'Queue::(Remove\w*|Clear)$', c.get('q') or '') and c.receiver() is not None and P_canon(c.receiver()) == Q]
            if not rms:
                continue
            n_ref += 1
            # references derived from it (const X & y = b.Get...()) are dead as well
            dead = set([v['d']])
            for w in h.walk():
                if w['k'] == 'VarDecl' and w['ch'] and w.type().rstrip().endswith('&') and any(x['k'] == 'DeclRefExpr' and x.get('d') in dead for x in w['ch'][0].walk()):
                    dead.add(w['d'])
            bad = None
            for rm in rms:
                rp = P.pos_of(h, rm)
                for u in h.walk():
                    if u['k'] == 'DeclRefExpr' and u.get('d') in dead:
                        up = P.pos_of(h, u)
                        if rp and up and ((rp[0] == up[0] and rp[1] < up[1]) or C.can_reach(h, rp, set([up]))):
                            bad = (rm, u)
            res.ob('REF-AFTER-REMOVE', h.where(v), '%s: reference `%s` to an element of %s is not used after the element is removed' % (h.q.split('::')[-1], v.get('n'), init.receiver().text(20)), bad is None,
                   function=h.q, key='REF-AFTER-REMOVE|%s|%s' % (h.q, v.get('n')),
                   message='%s: `%s` refers to an element of %s and is used at line %s after %s at line %s removed that element (the vacated slot is reset to a default item): the value read is empty — '
                           'here the packet\'s source address, which is the key of the tunnel\'s per-sender reassembly state' % (h.q, bad[1].get('n') if bad else '', init.receiver().text(20),
                                                                                                                   bad[1].get('l') if bad else '', (bad[0].get('q') or '').split('::')[-1] if bad else '', bad[0].get('l') if bad else ''))
    if n_ref < 1:
        raise AnalysisBroken('REF-AFTER-REMOVE: no queue-element reference followed by a removal found (ByteBufferPacketDataIO::ReadFrom expected)')
    # ---- round-2 additions
    # message ids wrap around: they are only ever compared for (in)equality
    fin = fx.fn1(PT + '::DoInputImplementation')
    rel = [n for n in fin.walk() if n['k'] == 'BinaryOperator' and n.get('op') in ('<', '<=', '>', '>=') and any((x.get('n') or '').lower().replace('_', '') == 'messageid' for x in n.walk())]
    res.ob('GUARD-ATOMS', fin.where(rel[0]) if rel else fin.where(), 'message ids are compared only with == / != (they wrap around at 2^32)', not rel, function=fin.q, key='GUARD-ATOMS|%s|id-equality-only' % fin.q,
           message='PacketTunnelIOGateway::DoInputImplementation orders message ids with `%s`: after the sender\'s 32-bit id counter wraps, every new Message looks "older" and the sender is muted for good'
                   % (rel[0].text(50) if rel else ''))
    # a packet can be lost: each packet is deflated independently of the previous ones
    n_df = 0
    for g_ in sorted((g_ for g_ in fx.funcs.values() if g_.full and re.search(r'PacketTunnelIOGateway::DoOutputImplementation$', g_.q)), key=lambda g_: g_.line):
        for c in P.calls(g_, r'^muscle::ZLibCodec::Deflate$'):
            n_df += 1
            a = c.args()
            ind = A.strip_casts(a[2]).get('v') if len(a) > 2 else None
            res.ob('MINI', g_.where(c), '%s deflates every packet independently' % g_.q.split('::')[-2], ind in (1, True), function=g_.q, key='MINI|%s|independent-deflate' % g_.q,
                   message='%s deflates a packet as a continuation of the previous packets (independent=%s): when a packet is lost or reordered the next one inflates against the wrong history — zlib reports '
                           'no error at a sync-flush boundary — and the receiver is handed a Message spliced from two sent Messages' % (g_.q, a[2].text(10) if len(a) > 2 else '?'))
    if n_df < 1:
        raise AnalysisBroken('MINI: no Deflate call in the packet tunnel senders')
    from . import C03
    C03.resume_offset_rule(res, fx, 'RESUME-OFFSET', file_re=r'^dataio/(PacketizedProxyDataIO|ByteBufferPacketDataIO)\.cpp$', floor=1)
    round3_rules(res, fx, f, cd, reader)
    # ---------------------------------------------------------------------------------- round 5: ID-PER-BUFFER
    res.rule('ID-PER-BUFFER', 'PacketTunnelIOGateway::DoOutputImplementation: every completed send buffer (RemoveHead() on _currentOutputBuffers) is followed on every path by an increment of '
                              '_sendMessageIDCounter: the receiver tells buffers apart by that ID alone (a slave gateway may produce several buffers per Message)', floor=1)
    w5 = fx.fn1(PT + '::DoOutputImplementation')
    from msa import ip as IP5
    is_rh = lambda c: c['k'] == 'CXXMemberCallExpr' and (c.get('q') or '').split('::')[-1] in ('RemoveHead', 'RemoveHeadWithDefault') and c.receiver() is not None \
        and A.strip_casts(c.receiver()).get('n') == '_currentOutputBuffers'
    def is_inc(n):
        if n['k'] == 'UnaryOperator' and n.get('op') in ('++', 'post++', 'pre++', '++pre', '++post') and A.strip_casts(n['ch'][0]).get('n') == '_sendMessageIDCounter':
            return True
        if n['k'] == 'UnaryOperator' and '++' in (n.get('op') or '') and A.strip_casts(n['ch'][0]).get('n') == '_sendMessageIDCounter':
            return True
        if n['k'] in ('BinaryOperator', 'CompoundAssignOperator') and n.get('op') in ('+=', '=') and A.strip_casts(n['ch'][0]).get('n') == '_sendMessageIDCounter':
            return n.get('op') == '+=' or any(x.get('n') == '_sendMessageIDCounter' for x in n['ch'][1].walk())
        return False
    n5 = 0
    for g5 in IP5.scope(fx, w5, '^' + PT + '::'):          # DoOutputImplementation and the private helpers its buffer bookkeeping may have been moved into
        rhs5 = [c for c in g5.walk() if c.is_call() and is_rh(c)]
        incs5 = [n for n in g5.walk() if is_inc(n)]
        for (i5, c) in enumerate(rhs5):
            n5 += 1
            # the increment directly before the removal (same basic block: nothing can separate the two) is the same thing
            ok5 = bool(incs5) and (any(P.pos_of(g5, i_) and P.pos_of(g5, i_)[0] == P.pos_of(g5, c)[0] for i_ in incs5) or bool(P.must_follow(g5, c, incs5)[0]))
            res.ob('ID-PER-BUFFER', g5.where(c), 'a finished send buffer moves the message ID on', ok5, function=g5.q, key='ID-PER-BUFFER|%s|%d' % (g5.q, i5), how='%d increment site(s)' % len(incs5),
                   message='PacketTunnelIOGateway::DoOutputImplementation finishes a send buffer without moving _sendMessageIDCounter on: two consecutive buffers (a packet-mode slave gateway emits several '
                           'per Message) carry the same ID, the receiver drops the second as a duplicate of the one it just completed, and under loss the head of one and the tail of the next of the '
                           'same size are glued into a Message that was never sent')
    if n5 < 1:
        raise AnalysisBroken('ID-PER-BUFFER: no RemoveHead() on _currentOutputBuffers in the scope of DoOutputImplementation')
    res.explanation = ('Static decision of the tunnel\'s acceptance structure: the operands of the reassembly memcpy are identified (state buffer + wire offset, reader pointer, wire chunk size) and each atom of the '
                       'acceptance test is required on a dominating branch edge — same source-keyed state, message id, offset, total size, overflow test, bounds, bytes available, magic — plus the '
                       'source-exclusion disjunction on every path; a Message starts only at offset 0; hand-off only for a complete buffer; writer/reader header order agrees. '
                       'Behaviour under concrete loss/duplication/reordering and id wrap-around are not decided.')
    res.assumptions = ['PacketDataIO::GetSourceOfLastReadPacket returns the true source of the packet just read']
    res.not_decided = ['delivery/ordering under concrete loss, duplication and reordering patterns', 'message-id wrap-around', 'mini tunnel zlib payloads']


def wrole_chunk(w, d):
    e = local_def(w, d)
    if e is None:
        return False
    mm = A.min_max(e)            # muscleMin(a, b) or `(a < b) ? a : b` in any spelling
    return (mm is not None and mm[0] == 'min') or any((x.get('q') or '').endswith('muscleMin') for x in e.walk() if x.is_call())


def round3_rules(res, fx, fin, cd, reader):
    # ADVANCE-ALWAYS: whether a chunk is accepted or ignored, the reader moves past its payload before the next chunk header is parsed
    res.rule('ADVANCE-ALWAYS', 'PacketTunnelIOGateway::DoInputImplementation: inside the loop over the chunks of a packet, every path from the read of a chunk\'s size word back to the loop head '
                               'passes reader.SeekRelative(chunk size) or reader.ReadBytes(…, chunk size)', floor=1)
    vd = [v for v in fin.walk() if v['k'] == 'VarDecl' and v.get('d') == cd]
    adv = [c for c in fin.walk() if c['k'] == 'CXXMemberCallExpr' and re.search(r'DataUnflattenerHelper::(SeekRelative|ReadBytes)$', c.get('q') or '') and A.root_loc(c.receiver()) == reader
           and c.args() and A.strip_casts(c.args()[-1] if (c.get('q') or '').endswith('ReadBytes') else c.args()[0]).get('d') == cd]
    ok = False
    if vd:
        pv = P.pos_of(fin, vd[0])
        loops = [(h, body) for (h, body) in C.natural_loops(fin) if pv and pv[0] in body]
        if loops:
            (h, body) = min(loops, key=lambda hb: len(hb[1]))
            ab = set(P.pos_of(fin, c)[0] for c in adv if P.pos_of(fin, c))
            # walk inside the loop body from the size word to the head, avoiding the advancing blocks
            seen, st, hit = set(), [pv[0]], False
            while st:
                x = st.pop()
                if x in seen:
                    continue
                seen.add(x)
                for s_ in fin.blocks[x].succ:
                    if s_ is None or s_ < 0 or s_ not in body:
                        continue
                    if s_ == h:
                        hit = True
                    elif s_ not in ab:
                        st.append(s_)
            ok = bool(adv) and not hit and pv[0] not in ab
    res.ob('ADVANCE-ALWAYS', fin.where(vd[0]) if vd else fin.where(), 'the chunk payload is skipped on every path to the next chunk header', ok, function=fin.q, key='ADVANCE-ALWAYS|%s' % fin.q,
           how='%d advancing call(s)' % len(adv),
           message='PacketTunnelIOGateway::DoInputImplementation can go on to the next chunk header without having moved past the payload of the current chunk (only accepted chunks advance the '
                   'reader): the payload of an ignored fragment is parsed as fragment headers, and payload bytes that look like a header are delivered as a Message nobody sent')
    # HOLD-ON-WOULDBLOCK: a packet is forgotten only after it has been written
    res.rule('HOLD-PACKET', 'the packet tunnels reset their pending-output size (_outputPacketSize = 0) only after the Write() of that packet, never before it (a Write() that takes nothing leaves the '
                            'packet pending for the next call)', floor=1)
    n = 0
    for g in sorted((g for g in fx.funcs.values() if g.full and g.q.endswith('PacketTunnelIOGateway::DoOutputImplementation')), key=lambda g: (g.file, g.line)):
        resets = [w for w in g.walk() if w['k'] == 'BinaryOperator' and w.get('op') == '=' and A.strip_casts(w['ch'][0]).get('n') == '_outputPacketSize' and A.strip_casts(w['ch'][1]).get('v') == 0]
        writes = [c for c in g.walk() if c['k'] == 'CXXMemberCallExpr' and re.search(r'DataIO::Write$', c.get('q') or '') and any(x['k'] == 'MemberExpr' and x.get('n') == '_outputPacketBuffer' for x in c.walk())]
        if not resets or not writes:
            continue
        n += 1
        bad = [w for w in resets if any(P.pos_of(g, w) and P.pos_of(g, c) and ((P.pos_of(g, w)[0] == P.pos_of(g, c)[0] and P.pos_of(g, w)[1] < P.pos_of(g, c)[1]) or
                                                                             (P.pos_of(g, w)[0] != P.pos_of(g, c)[0] and C.block_dominates(g, P.pos_of(g, w)[0], P.pos_of(g, c)[0]))) for c in writes)]
        res.ob('HOLD-PACKET', g.where(bad[0]) if bad else g.where(resets[0]), '%s: _outputPacketSize is cleared after the Write of the packet' % g.q.split('::')[-2], not bad, function=g.q, key='HOLD-PACKET|%s' % g.q,
               message='%s clears _outputPacketSize before it calls Write(): when the DataIO takes nothing (would-block) the "hold this buffer until our next call" path has already forgotten the '
                       'packet, and the Messages or fragments in it are never transmitted' % g.q)
    if n < 1:
        raise AnalysisBroken('HOLD-PACKET: no tunnel output routine with a pending-size reset and a Write found')
    # SOURCE-AFTER-READ: "fragments of different senders are never combined": a packet is filed under the address it came from
    res.rule('SOURCE-AFTER-READ', 'in the tunnels\' DoInputImplementation every GetSourceOfLastReadPacket() is preceded, on every path from the head of the receive loop, by the Read() of that packet', floor=1)
    n_sr = 0
    for g in sorted((g for g in fx.funcs.values() if g.full and g.q.endswith('PacketTunnelIOGateway::DoInputImplementation')), key=lambda g: (g.file, g.line)):
        srcs = [c for c in g.walk() if c.is_call() and (c.get('q') or '').endswith('::GetSourceOfLastReadPacket')]
        reads = [c for c in g.walk() if c['k'] == 'CXXMemberCallExpr' and re.search(r'DataIO::(Read|ReadFrom)$', c.get('q') or '')]
        # the statement that performs the read (`const io_status_t n = io ? io->Read(…) : -1;`) is the event: the read sits in one arm of a conditional expression
        reads = [v for v in g.walk() if v['k'] == 'VarDecl' and v['ch'] and any(any(x is r for x in v['ch'][0].walk()) for r in reads)] or reads
        for c in srcs:
            n_sr += 1
            cp = P.pos_of(g, c)
            hdrs = [h for (h, body) in C.natural_loops(g) if cp and cp[0] in body]
            rp = set(P.pos_of(g, r) for r in reads if P.pos_of(g, r))
            ok = bool(reads) and bool(cp) and P.must_precede(g, reads, c) and all(not C.can_reach(g, (h, 0), set([cp]), avoid_points=rp) for h in hdrs)
            res.ob('SOURCE-AFTER-READ', g.where(c), '%s: the packet\'s source is asked for after the packet was read' % g.q.split('::')[-2], ok, function=g.q, key='SOURCE-AFTER-READ|%s' % g.q,
                   message='%s calls GetSourceOfLastReadPacket() on a path on which the packet of this iteration has not been read yet: every packet is filed under the sender of the PREVIOUS packet, '
                           'so fragments of different senders (all numbering their Messages 0, 1, 2 …) land in one receive state and are merged into a Message nobody sent' % g.q)
    if n_sr < 1:
        raise AnalysisBroken('SOURCE-AFTER-READ: no GetSourceOfLastReadPacket() call found in the tunnel input routines')
    # BUFFER-FREE: a packet that Write() has accepted stays in the buffer until all of it went out
    res.rule('BUFFER-FREE', 'PacketizedProxyDataIO::Write refills _outputBuffer (SetNumBytes on it) only where HasBufferedOutput() — sent < buffered — was evaluated and found false; '
                            '"some bytes of it were sent" is not the same as "it is still pending"', floor=1)
    pw = [g for g in fx.funcs.values() if g.full and g.q == 'muscle::PacketizedProxyDataIO::Write']
    if not pw:
        raise AnalysisBroken('BUFFER-FREE: PacketizedProxyDataIO::Write has no analysed body')
    pw = pw[0]
    refills = [c for c in pw.walk() if c['k'] == 'CXXMemberCallExpr' and (c.get('q') or '').endswith('::SetNumBytes') and c.receiver() is not None and A.strip_casts(c.receiver()).get('n') == '_outputBuffer']
    if not refills:
        raise AnalysisBroken('BUFFER-FREE: the refill of _outputBuffer was not found in PacketizedProxyDataIO::Write')
    for c in refills:
        free = False
        for (cn, t) in G.atoms_at(pw, c):
            core, pol = A.bool_polarity(cn, t)
            if pol is False and core.is_call() and (core.get('q') or '').endswith('::HasBufferedOutput'):
                free = True
            for (l_, op_, r_) in A.rel_forms(cn, t):
                if op_ in ('>=', '==') and l_['k'] == 'MemberExpr' and l_.get('n') == '_outputBufferBytesSent' and r_.is_call() and (r_.get('q') or '').endswith('::GetNumBytes') \
                        and r_.receiver() is not None and A.strip_casts(r_.receiver()).get('n') == '_outputBuffer':
                    free = True
        res.ob('BUFFER-FREE', pw.where(c), 'PacketizedProxyDataIO::Write overwrites the packet buffer only when nothing of the previous packet is pending', free, function=pw.q, key='BUFFER-FREE|%s' % pw.q,
               message='PacketizedProxyDataIO::Write refills _outputBuffer without HasBufferedOutput() having been found false: a packet that was buffered but of which the stream has accepted zero bytes '
                       'so far is overwritten by the next Write() — it had already been reported as accepted, so it silently vanishes from a loss-free byte stream')
    # PENDING-VISIBLE: what DoOutput() may still have to transmit is what HasBytesToOutput() reports
    res.rule('PENDING-VISIBLE', 'in the packet tunnels, a member of *this that (a) guards the DataIO::Write() of DoOutputImplementation (tested positive / non-empty on a dominating branch), (b) is an argument of '
                                'that Write() and (c) can keep its value when the method returns (HOLD-PACKET: a Write() that takes nothing leaves the packet pending) is read by HasBytesToOutput() of the same '
                                'class: the caller waits for the socket to become writable only while HasBytesToOutput() is true', floor=2)
    n_pv = 0
    for g in sorted((g for g in fx.funcs.values() if g.full and g.q.endswith('PacketTunnelIOGateway::DoOutputImplementation')), key=lambda g: (g.file, g.line)):
        cls = g.q.rsplit('::', 1)[0]
        hb = [h for h in fx.funcs.values() if h.full and h.q == cls + '::HasBytesToOutput']
        if not hb:
            raise AnalysisBroken('PENDING-VISIBLE: %s::HasBytesToOutput has no analysed body' % cls)
        from msa import ip as IP
        seen = set(x.get('n') for h in IP.scope(fx, hb[0], '^' + re.escape(cls) + '::') for x in h.walk() if x['k'] == 'MemberExpr' and A.is_this_member(x))
        for c in g.walk():
            if not (c['k'] == 'CXXMemberCallExpr' and re.search(r'DataIO::Write$', c.get('q') or '')) or len(c.args()) < 2:
                continue
            # the member that mirrors the size of the pending packet: it IS the size argument, or the size argument is a local initialised with the very expression that is also stored into the member
            held = set()
            sz = A.strip_casts(c.args()[1])
            if sz['k'] == 'MemberExpr' and A.is_this_member(sz):
                held.add(sz['n'])
            elif sz['k'] == 'DeclRefExpr' and sz.get('d') is not None:
                inits = [A.render_key(A.strip_casts(v['ch'][0])) for v in g.walk() if v['k'] == 'VarDecl' and v.get('d') == sz['d'] and v['ch']]
                for v in g.walk():
                    if v['k'] == 'VarDecl' and v.get('d') == sz['d'] and v['ch'] and A.strip_casts(v['ch'][0])['k'] == 'MemberExpr' and A.is_this_member(A.strip_casts(v['ch'][0])):
                        held.add(A.strip_casts(v['ch'][0])['n'])       # a local copy of the member
                for w in g.walk():
                    if w['k'] == 'BinaryOperator' and w.get('op') == '=':
                        l_ = A.strip_casts(w['ch'][0])
                        if l_['k'] == 'MemberExpr' and A.is_this_member(l_) and A.render_key(A.strip_casts(w['ch'][1])) in inits:
                            held.add(l_['n'])
            for mname in sorted(held):
                # (c) some path from the Write to a return passes no reset of the member
                resets = [w for w in g.walk() if w['k'] == 'BinaryOperator' and w.get('op') == '=' and A.strip_casts(w['ch'][0]).get('n') == mname and A.strip_casts(w['ch'][1]).get('v') == 0]
                always_reset = bool(resets) and P.must_follow(g, c, resets, escapes=P.escape_edges(g, status=True, null=False))[0]
                if always_reset:
                    continue
                n_pv += 1
                ok = mname in seen
                res.ob('PENDING-VISIBLE', hb[0].where(), '%s::HasBytesToOutput() reports a packet that DoOutput() still holds (%s)' % (cls.split('::')[-1], mname), ok, function=hb[0].q,
                       key='PENDING-VISIBLE|%s|%s' % (cls, mname), how='members read: %s' % sorted(x for x in seen if x),
                       message='%s::DoOutputImplementation keeps a packed packet for its next call when Write() takes nothing (%s stays > 0), but %s::HasBytesToOutput() does not look at %s: once the '
                               'Messages have been moved into the packet it answers false, the event loop stops waiting for the socket to become writable, and the held packet is not sent until some '
                               'later Message happens to be queued (never, if it was the last one)' % (cls, mname, cls, mname))
    if n_pv < 2:
        raise AnalysisBroken('PENDING-VISIBLE: only %d held packet member(s) found in the tunnel output routines' % n_pv)
    # PACK-WIDTH: a counter that shares a header word with another field stays within its field
    res.rule('PACK-WIDTH', 'MiniPacketTunnelIOGateway: the packet-id counter that is OR-ed below (level << K) is reduced modulo 2^K (or masked) in every statement that changes it', floor=1)
    m = 0
    for g in sorted((g for g in fx.funcs.values() if g.full and g.q.startswith(MPT + '::')), key=lambda g: (g.file, g.line)):
        for n_ in g.walk():
            if n_['k'] == 'BinaryOperator' and n_.get('op') == '|':
                for (a, b) in ((n_['ch'][0], n_['ch'][1]), (n_['ch'][1], n_['ch'][0])):
                    a0, b0 = A.strip_casts(a), A.strip_casts(b)
                    if a0['k'] == 'MemberExpr' and A.is_this_member(a0) and b0['k'] == 'BinaryOperator' and b0.get('op') == '<<' and A.strip_casts(b0['ch'][1]).get('v') is not None:
                        K = A.strip_casts(b0['ch'][1])['v']
                        cname = a0.get('n')
                        m += 1
                        bad = None
                        for h in (h for h in fx.funcs.values() if h.full and h.q.startswith(MPT + '::') and not h.q.endswith('(ctor)')):
                            for w in h.walk():
                                tgt = None
                                if w['k'] in ('BinaryOperator', 'CompoundAssignOperator') and w.get('op') in A.ASSIGN_OPS:
                                    tgt = A.strip_casts(w['ch'][0])
                                elif w['k'] == 'UnaryOperator' and w.get('op') in ('post++', 'pre++', 'post--', 'pre--'):
                                    tgt = A.strip_casts(w['ch'][0])
                                if tgt is None or tgt['k'] != 'MemberExpr' or tgt.get('n') != cname:
                                    continue
                                okw = False
                                if w['k'] == 'BinaryOperator' and w.get('op') == '=':
                                    r0 = A.strip_casts(w['ch'][1])
                                    if r0.get('v') is not None and 0 <= r0['v'] < (1 << K):
                                        okw = True
                                    if r0['k'] == 'BinaryOperator' and r0.get('op') == '%' and A.strip_casts(r0['ch'][1]).get('v') is not None and A.strip_casts(r0['ch'][1])['v'] <= (1 << K):
                                        okw = True
                                    if r0['k'] == 'BinaryOperator' and r0.get('op') == '&' and any(A.strip_casts(y).get('v') is not None and A.strip_casts(y)['v'] < (1 << K) for y in r0['ch']):
                                        okw = True
                                if not okw:
                                    bad = bad or (h, w)
                        res.ob('PACK-WIDTH', g.where(n_), '`%s` stays below 2^%d wherever it is changed' % (cname, K), bad is None, function=g.q, key='PACK-WIDTH|%s|%s' % (MPT, cname),
                               message='%s changes `%s` (line %s) without reducing it modulo 2^%d, but %s packs it as `%s`: after 2^%d packets the counter spills into the compression-level bits, raw '
                                       'packets are labelled as deflated, the receiver fails to inflate them and drops them' % (bad[0].q if bad else '', cname, bad[1].get('l') if bad else '', K, g.q, n_.text(60), K))
    if m < 1:
        raise AnalysisBroken('PACK-WIDTH: the packing `counter | (level << K)` was not found in MiniPacketTunnelIOGateway')


def mini_rule(res, fx):
    res.rule('MINI', 'MiniPacketTunnelIOGateway::DoInputImplementation hands a chunk to the receiver only if its declared size fits the bytes left in the packet, and skips exactly that many bytes', floor=1)
    f = fx.fn1(MPT + '::DoInputImplementation')
    ho = [c for c in P.calls(f, r'::HandleIncomingByteBuffer$') if any((x.get('q') or '').endswith('::GetCurrentReadPointer') for x in c.walk() if x.is_call())]
    if not ho:
        raise AnalysisBroken('MiniPacketTunnelIOGateway: chunk hand-off not found')
    ok = True
    how = None
    for h in ho:
        sz = A.strip_casts(h.args()[2])
        g = False
        for (cn, t) in guards(f, h):
            for (l, op, b) in A.rel_forms(cn, t):
                if op == '<=' and P_canon(l) == P_canon(sz):
                    e = local_def(f, b['d']) if 'd' in b else b
                    if e is not None and any((x.get('q') or '').endswith('::GetNumBytesAvailable') for x in e.walk() if x.is_call()):
                        g = True
                        how = A.strip_casts(cn).text()
        ok = ok and g
    res.ob('MINI', f.where(ho[0]), 'mini tunnel: chunk size <= bytes available dominates the hand-off', ok, how=how, function=f.q, key='MINI|%s|bound' % f.q,
           message='the mini tunnel hands the receiver a chunk whose declared size exceeds the bytes left in the packet')
