"""C10  Reference-counted and pooled objects are released exactly once, never early.
RMW (one atomic read-modify-write decides the last reference), LAST-REF (free only under that decision, at most once per path),
REF-PAIR (every write of the held pointer is paired with the matching count operation), POOL (reset before recycle, slab lists under the pool mutex,
slab deletion and manager assignment outside it).  Resolved on forced instantiations (engine/instantiate.cpp)."""
import re
from msa import guards as G
from msa import ip as IP
from msa import pair as P
from msa import ast as A
from msa import cfg as C
from msa import lockset as L
from msa.facts import AnalysisBroken
from . import common

CR = 'muscle::ConstRef'
OP = 'muscle::ObjectPool'


def one(fx, q, inst=None):
    fs = [f for f in fx.by_q.get(q, []) if f.full and (inst is None or inst in f.name)]
    if not fs:
        raise AnalysisBroken('function %s%s not found (instantiation unit changed?)' % (q, ' for ' + inst if inst else ''))
    return fs[0]


def item_writes(f):
    """calls that overwrite this->_item"""
    out = []
    for c in f.walk():
        if c['k'] == 'CXXMemberCallExpr' and c.receiver() is not None:
            r = A.strip_casts(c.receiver())
            if r['k'] == 'MemberExpr' and r.get('n') == '_item' and A.is_this_member(r) and not c.get('cm'):
                out.append(c)
    return out


def item_null_escapes(f):
    """only the null-ness of the held item pointer itself excuses a missing count operation"""
    itemvars = set()
    for v in f.walk():
        if v['k'] == 'VarDecl' and v['ch'] and any((x.get('q') or '').endswith('::GetItemPointer') for x in v['ch'][0].walk() if x.is_call()):
            itemvars.add(v['d'])
    for p in f.params:
        if f.ptype(p).endswith('*'):
            itemvars.add(p['d'])

    def extra(n, pol):
        is_item = (n['k'] == 'DeclRefExpr' and n.get('d') in itemvars) or (n.is_call() and (n.get('q') or '').endswith('::GetItemPointer'))
        if is_item:
            return 'false' if pol else 'true'
        return None
    return P.escape_edges(f, status=False, null=False, extra=extra)


def run(res, tier):
    fx = common.load_units(res, ['util/ByteBuffer.cpp'], fn_regex=r'^muscle::(ConstRef|Ref|ObjectPool|AtomicCounter|RefCountable|PointerAndBits|CastAwayConstFromRef)(::|$)', extra=[common.INSTANTIATE])
    INST_R = 'ConstRef<muscle::ByteBuffer>'
    INST_P = 'ObjectPool<muscle::VerifPooledObject'
    # ------------------------------------------------------------------------------------------- RMW
    res.rule('RMW', 'AtomicCounter::AtomicDecrement / AtomicIncrement compute their result from one read-modify-write expression on the atomic _count, which is not read a second time', floor=2)
    for (name, ops, cmpv) in (('AtomicDecrement', ('operator--', 'fetch_sub'), 0), ('AtomicIncrement', ('operator++', 'fetch_add'), 1)):
        f = one(fx, 'muscle::AtomicCounter::' + name)
        refs = [n for n in f.walk() if n['k'] == 'MemberExpr' and n.get('n') == '_count']
        atomic = bool(refs) and all('atomic' in n.type() for n in refs)
        rets = [n for n in f.walk() if n['k'] == 'ReturnStmt']
        shape = False
        how = None
        if len(refs) == 1 and len(rets) == 1 and rets[0]['ch']:
            e = A.strip_casts(rets[0]['ch'][0])
            # the comparison may be held in a local that is defined once and returned (`const bool last = (--_count == 0); return last;`)
            for _hop in range(2):
                if e['k'] == 'DeclRefExpr' and 'd' in e:
                    dfs = [v for v in f.walk() if v['k'] == 'VarDecl' and v.get('d') == e['d'] and v['ch']]
                    asg = [n for n in f.walk() if n['k'] == 'BinaryOperator' and n.get('op') in A.ASSIGN_OPS and A.strip_casts(n['ch'][0]).get('d') == e['d']]
                    if len(dfs) == 1 and not asg:
                        e = A.strip_casts(dfs[0]['ch'][0])
            for (rmw, op_, cv_) in A.rel_forms(e, True):
                if op_ != '==' or 'v' not in cv_ or not rmw.is_call():
                    continue
                opn = (rmw.get('q') or '').split('::')[-1]
                is_rmw = rmw.is_call() and opn in ops and refs[0] in list(rmw.walk())
                # prefix form: operator-- without the dummy int argument
                prefix = rmw['k'] == 'CXXOperatorCallExpr' and len(rmw['ch']) == 2
                expect = cmpv if prefix or not opn.startswith('fetch') else (1 if name == 'AtomicDecrement' else 0)
                if not prefix and opn.startswith('operator'):
                    expect = 1 if name == 'AtomicDecrement' else 0       # postfix returns the old value
                shape = is_rmw and cv_['v'] == expect
                how = e.text()
        res.ob('RMW', f.where(), '%s: single RMW on std::atomic _count decides the result' % name, atomic and shape, how=how, function=f.q, key='RMW|%s|single-rmw' % f.q,
               message='%s no longer derives its result from the value returned by one atomic read-modify-write (or reads _count again): two threads dropping the last two references can both / neither see zero, '
                       'so the object is freed twice or never' % f.q)
    f = one(fx, 'muscle::RefCountable::DecrementRefCount')
    ok = any(n['k'] == 'ReturnStmt' and n['ch'] and any((x.get('q') or '').endswith('AtomicCounter::AtomicDecrement') for x in n['ch'][0].walk() if x.is_call()) for n in f.walk()) and \
        sum(1 for x in f.walk() if x.is_call() and 'AtomicCounter' in (x.get('q') or '')) == 1
    res.ob('RMW', f.where(), 'RefCountable::DecrementRefCount returns AtomicDecrement() of its counter, nothing else', ok, function=f.q, key='RMW|%s|forward' % f.q,
           message='RefCountable::DecrementRefCount no longer returns the result of the single atomic decrement')
    fi = one(fx, 'muscle::RefCountable::IncrementRefCount')
    calls_i = [x for x in fi.walk() if x.is_call() and 'AtomicCounter' in (x.get('q') or '')]
    res.ob('RMW', fi.where(), 'RefCountable::IncrementRefCount is one AtomicIncrement() of its counter, nothing else', len(calls_i) == 1 and (calls_i[0].get('q') or '').endswith('AtomicCounter::AtomicIncrement'),
           function=fi.q, key='RMW|%s|forward' % fi.q, how=', '.join((x.get('q') or '').split('::')[-1] for x in calls_i),
           message='RefCountable::IncrementRefCount no longer is a single atomic increment (%s): an increment built from a read and a separate compare-and-swap is lost when another thread changes the '
                   'count in between, while the matching decrement still happens — the count reaches zero while references exist and the object is released early and more than once'
                   % ', '.join((x.get('q') or '').split('::')[-1] for x in calls_i))
    # ------------------------------------------------------------------------------------------- LAST-REF
    res.rule('LAST-REF', 'ConstRef::UnrefItemAux frees (delete / RecycleObject) only on the true edge of DecrementRefCount(), when counting and when deletion is allowed, and at most once per path', floor=2)
    f = one(fx, CR + '::UnrefItemAux', INST_R)
    CRS = r'^muscle::ConstRef::'
    is_free = lambda n: n['k'] == 'CXXDeleteExpr' or (n.is_call() and (n.get('q') or '').endswith('::RecycleObject'))
    # the two free sites sit in UnrefItemAux itself or in a private helper it calls (msa/ip.py)
    tops = IP.may_sites(fx, f, is_free, CRS)
    frees_ip = [leaf for (_, ls) in tops for leaf in ls]
    if len(frees_ip) != 2:
        raise AnalysisBroken('UnrefItemAux: expected delete + RecycleObject, found %d free sites' % len(frees_ip))
    for (g_, fr) in frees_ip:
        gs = IP.atoms_at_ip(fx, f, g_, fr, CRS)
        dec = any(cn.is_call() and (cn.get('q') or '').endswith('::DecrementRefCount') and t for (cn, t) in gs)
        counting = False
        for (cn, t) in gs:
            n = A.strip_casts(cn)
            if t and n['k'] == 'DeclRefExpr' and 'd' in n:
                for v in n.func.walk():
                    if v['k'] == 'VarDecl' and v['d'] == n['d'] and v['ch'] and any((x.get('q') or '').endswith('::IsRefCounting') for x in v['ch'][0].walk() if x.is_call()):
                        counting = True
            if t and n.is_call() and (n.get('q') or '').endswith('::IsRefCounting'):
                counting = True
        allow = any(A.strip_casts(cn).get('d') == f.params[1]['d'] and t for (cn, t) in gs)
        res.ob('LAST-REF', g_.where(fr), '%s in UnrefItemAux is behind DecrementRefCount() == true, IsRefCounting() and allowDelete' % ('delete' if fr['k'] == 'CXXDeleteExpr' else 'RecycleObject'),
               dec and counting and allow, function=f.q, key='LAST-REF|%s|%s' % (f.q, 'delete' if fr['k'] == 'CXXDeleteExpr' else 'recycle'),
               message='UnrefItemAux can free the object %s: it is destroyed while other references exist (or by a non-counting reference)' %
                       ', '.join(w for (w, b) in (('without DecrementRefCount() having returned true', dec), ('without IsRefCounting()', counting), ('although allowDelete is false', allow)) if not b))

    def excl(h, a, b):
        return not C.can_reach(h, P.pos_of(h, a), set([P.pos_of(h, b)])) and not C.can_reach(h, P.pos_of(h, b), set([P.pos_of(h, a)]))
    (g0, f0), (g1, f1) = frees_ip
    once = (g0 is not g1 or excl(g0, f0, f1)) and all(excl(f, tops[i][0], tops[j][0]) for i in range(len(tops)) for j in range(i + 1, len(tops)))
    ndec = sum(1 for c in f.walk() if c.is_call() and (c.get('q') or '').endswith('::DecrementRefCount'))
    res.ob('LAST-REF', f.where(), 'UnrefItemAux decrements once and the two free sites exclude each other', once and ndec == 1, function=f.q, key='LAST-REF|%s|once' % f.q,
           message='UnrefItemAux can decrement twice or both delete and recycle on one path')
    # ------------------------------------------------------------------------------------------- REF-PAIR
    res.rule('REF-PAIR', 'every ConstRef member that stores a pointer into _item is followed by RefItem(); every member that clears or replaces _item first releases through UnrefItem()/UnrefItemAux()/'
                         'DecrementRefCount(); the counting bit is switched on before RefItem() and off after UnrefItemAux(); move/swap only exchanges _item', floor=8)
    methods = [f for f in fx.funcs.values() if f.full and f.q.startswith(CR + '::') and INST_R in f.name]
    release = r'::(UnrefItem|UnrefItemAux|DecrementRefCount|Reset)$'
    n_w = 0
    for f in sorted(methods, key=lambda f: f.line):
        short = f.q.split('::')[-1]
        ws = item_writes(f)
        if short == '(ctor)':
            inits = [i for i in f.inits if i.get('field') == '_item' and i.get('written')]
            if inits and inits[0].get('e') is not None and inits[0]['e'].args() and len(inits[0]['e'].args()) >= 1 and A.strip_casts(inits[0]['e'].args()[0])['k'] == 'DeclRefExpr':
                n_w += 1
                ri = P.calls(f, r'::RefItem$')
                ok = bool(ri) and C.must_pass(f, (f.entry, -1), set(P.pos_of(f, c) for c in ri))[0]
                res.ob('REF-PAIR', f.where(), 'constructor %s that stores a pointer calls RefItem()' % f.name.split('::')[-1][:40], ok, function=f.q, key='REF-PAIR|%s|ctor-ref:%d' % (f.q, len(f.params)),
                       message='a ConstRef constructor stores an object pointer without incrementing its reference count: the object is freed while this reference still points at it')
            continue
        for w in ws:
            m = (w.get('q') or '').split('::')[-1]
            n_w += 1
            key = 'REF-PAIR|%s|%s' % (f.q, m)
            if m == 'SwapContents':
                ok = not P.calls(f, r'::(RefItem|UnrefItem|UnrefItemAux)$')
                res.ob('REF-PAIR', f.where(w), '%s exchanges _item without touching any count' % short, ok, function=f.q, key=key, message='%s changes a reference count while swapping' % f.q)
                continue
            if m == 'SetBit':
                continue     # SetRefCounting: judged at its callers (SetRef) below
            if m != 'SetPointerAndBits':
                res.ob('REF-PAIR', f.where(w), 'unknown write %s of _item in %s' % (m, short), False, function=f.q, key=key, message='%s writes _item through %s, which the pairing table does not know' % (f.q, m))
                continue
            a0 = A.strip_casts(w.args()[0])
            clears = a0.get('v') == 0 or a0['k'] in ('GNUNullExpr', 'CXXNullPtrLiteralExpr')
            rel = P.calls(f, release)
            if short == 'SetStatusAux':
                # stores an error string, not an object: every non-constructor caller must have released first
                bad = []
                for g in methods:
                    if g.q.split('::')[-1] == '(ctor)':
                        continue
                    for c in P.calls(g, r'::SetStatusAux$'):
                        if not P.must_precede(g, P.calls(g, release), c):
                            bad.append(g.q)
                res.ob('REF-PAIR', f.where(w), 'SetStatusAux overwrites _item only in constructors or after a release', not bad, function=f.q, key=key,
                       message='%s calls SetStatusAux without releasing the held object first: the object leaks' % (bad[0] if bad else ''))
                continue
            esc = item_null_escapes(f)
            pre = bool(rel) and P.must_precede(f, rel, w, esc)
            if not pre and rel:
                # a release through a local copy of the pointer taken before the write does not read _item: it may also come after the write
                local_rel = [c for c in rel if c['k'] == 'CXXMemberCallExpr' and c.receiver() is not None and A.root_loc(c.receiver())[0] == 'v'
                             and any(v['k'] == 'VarDecl' and v['d'] == A.root_loc(c.receiver())[1] and C.dominates(f, v['i'], w['i']) for v in f.walk())]
                if local_rel and P.must_follow(f, w, local_rel, esc)[0]:
                    pre = True
            if not pre:
                # the old reference is handed to a local ConstRef (this->SwapContents(local) before the store); the local's destructor releases it after the new item has been
                # referenced — the safe order when releasing the old item could destroy the new one (cur = cur()->_next)
                for v in f.walk():
                    if v['k'] == 'VarDecl' and re.search(r'(^|::)ConstRef(<|$)', v.type().replace('const ', '')) and not v.type().rstrip().endswith(('&', '*')):
                        sw = [c for c in f.walk() if c['k'] == 'CXXMemberCallExpr' and (c.get('q') or '').endswith('ConstRef::SwapContents') and c.args()
                              and ((A.strip_casts(c.args()[0]).get('d') == v['d'] and (c.receiver() is None or A.strip_casts(c.receiver())['k'] == 'CXXThisExpr'))
                                   or (c.receiver() is not None and A.strip_casts(c.receiver()).get('d') == v['d'] and A.strip_casts(c.args()[0])['k'] in ('UnaryOperator', 'CXXThisExpr')))]
                        if sw and P.must_precede(f, sw, w, esc) and not any(A.strip_casts(x).get('d') == v['d'] for r_ in f.walk() if r_['k'] == 'ReturnStmt' for x in r_.walk()):
                            pre = True
                            rel = sw
            if clears:
                res.ob('REF-PAIR', f.where(w), '%s clears _item only after releasing the reference' % short, pre, function=f.q, key=key,
                       how='release call at line %s' % (rel[0].get('l') if rel else '?'),
                       message='%s clears the held pointer without first decrementing the reference count: the object is never freed (leak), or its count stays too high forever' % f.q)
            else:
                ri = P.calls(f, r'::RefItem$')
                post = bool(ri) and P.must_follow(f, w, ri)[0]
                res.ob('REF-PAIR', f.where(w), '%s replaces _item: release before, RefItem() after' % short, pre and post, function=f.q, key=key,
                       message='%s stores a new pointer %s: %s' % (f.q, 'without releasing the old one' if not pre else 'without RefItem()',
                                                                     'the old object leaks' if not pre else 'the new object can be freed while this reference points at it'))
    f = one(fx, CR + '::SetRef', INST_R)
    on = [c for c in P.calls(f, r'::SetRefCounting$') if c.args() and c.args()[0].get('v') == 1]
    off = [c for c in P.calls(f, r'::SetRefCounting$') if c.args() and c.args()[0].get('v') == 0]
    ri = P.calls(f, r'::RefItem$')
    ua = [c for c in P.calls(f, r'::UnrefItemAux$') if len(c.args()) > 1 and c.args()[1].get('v') == 0]
    ok = bool(on) and bool(off) and bool(ua) and any(P.must_follow(f, on[0], ri, P.escape_edges(f))[0] for _ in [0]) and P.must_precede(f, ua, off[0], P.escape_edges(f))
    res.ob('REF-PAIR', f.where(), 'SetRef on the same item: counting bit on => then RefItem(); UnrefItemAux(item,false) => then counting bit off', ok, function=f.q, key='REF-PAIR|%s|bit-order' % f.q,
           message='SetRef switches the ref-counting bit in the wrong order relative to RefItem()/UnrefItemAux(), which read that bit: the count is not adjusted when counting is switched on or off')
    if n_w < 6:
        raise AnalysisBroken('REF-PAIR: only %d writes of _item found' % n_w)
    # ------------------------------------------------------------------------------------------- POOL
    res.rule('POOL', 'ObjectPool: a released object is reset to the default object and loses its manager before it re-enters the free list; the slab lists are touched only under _mutex; '
                     'slab deletion happens after UnlockEarly; an obtained object gets its manager outside the lock', floor=6)
    pfuncs = [f for f in fx.funcs.values() if f.full and f.cls == OP and INST_P in f.name]
    if len(pfuncs) < 10:
        raise AnalysisBroken('only %d ObjectPool methods instantiated' % len(pfuncs))
    cl = L.ClassLocks(fx, pfuncs)
    f = one(fx, OP + '::ReleaseObject', INST_P)
    aux = P.calls(f, r'::ReleaseObjectAux$')
    reset = [n for n in f.walk() if n['k'] in ('CXXOperatorCallExpr', 'BinaryOperator') and ((n.get('q') or '').endswith('::operator=') or n.get('op') == '=') and
             any((x.get('q') or '').endswith('::GetDefaultObject') for x in n.walk() if x.is_call())]
    nomgr = [c for c in P.calls(f, r'::SetManager$') if c.args() and (c.args()[0].get('v') == 0 or A.strip_casts(c.args()[0])['k'] in ('GNUNullExpr', 'CXXNullPtrLiteralExpr'))]
    ok = bool(aux) and bool(reset) and bool(nomgr) and P.must_precede(f, reset, aux[0], P.escape_edges(f)) and P.must_precede(f, nomgr, aux[0], P.escape_edges(f))
    res.ob('POOL', f.where(), 'ReleaseObject: *obj = GetDefaultObject() and SetManager(NULL) precede ReleaseObjectAux', ok, function=f.q, key='POOL|%s|reset-before-recycle' % f.q,
           how='reset line %s, SetManager(NULL) line %s, ReleaseObjectAux line %s' % (reset[0].get('l') if reset else '?', nomgr[0].get('l') if nomgr else '?', aux[0].get('l') if aux else '?'),
           message='ReleaseObject can put an object back on the free list before resetting it to the default state (or with its manager still set): the next owner receives stale contents, and references held by the '
                   'old contents are released only when the slot is reused')
    dl = [n for n in f.walk() if n['k'] == 'CXXDeleteExpr']
    okl = bool(aux) and ('this', '_mutex') in cl.held_at(f, aux[0]) and bool(dl) and all(('this', '_mutex') not in cl.may_held_at(f, d) for d in dl)
    res.ob('POOL', f.where(), 'ReleaseObjectAux runs under _mutex; the slab is deleted after the lock is released', okl, function=f.q, key='POOL|%s|lock' % f.q,
           message='ReleaseObject updates the free list without _mutex or deletes a slab while holding it')
    f = one(fx, OP + '::ObtainObject', INST_P)
    aux = P.calls(f, r'::ObtainObjectAux$')
    sm = [c for c in P.calls(f, r'::SetManager$') if c.args() and A.strip_casts(c.args()[0])['k'] == 'CXXThisExpr']
    ok = bool(aux) and ('this', '_mutex') in cl.held_at(f, aux[0]) and bool(sm) and all(('this', '_mutex') not in cl.may_held_at(f, c) for c in sm) and P.must_precede(f, aux, sm[0])
    res.ob('POOL', f.where(), 'ObtainObject: ObtainObjectAux under _mutex, then SetManager(this) on the result', ok, function=f.q, key='POOL|%s|obtain' % f.q,
           message='ObtainObject takes a node off the free list without _mutex, or hands out an object whose manager is not this pool (it would be deleted instead of recycled, or recycled into another pool)')
    # a slab leaves the pool for good (is unlinked without being re-inserted) only when none of its objects is in use
    n_sf = 0
    for g in sorted(pfuncs, key=lambda g: g.line):
        for r_ in g.walk():
            if not (r_['k'] == 'CXXMemberCallExpr' and (r_.get('q') or '').endswith('::RemoveFromSlabList') and r_.receiver() is not None):
                continue
            if g.q.endswith('::RemoveFromSlabList'):
                continue
            rk = A.render_key(G.local_init(g, r_.receiver()))
            rk2 = A.render_key(r_.receiver())
            same = lambda x: x.receiver() is not None and (A.render_key(x.receiver()) == rk2 or A.render_key(G.local_init(g, x.receiver())) == rk)
            reins = [c for c in g.walk() if c['k'] == 'CXXMemberCallExpr' and re.search(r'::(AppendToSlabList|PrependToSlabList)$', c.get('q') or '') and same(c)]
            if reins and P.must_follow(g, r_, reins)[0]:
                continue          # a move within the list
            n_sf += 1
            idle = any(a.is_call() and (a.get('q') or '').endswith('::IsInUse') and same(a) and not t for (a, t) in G.atoms_at(g, r_))
            res.ob('POOL', g.where(r_), '%s: a slab is taken out of the pool only when IsInUse() is false' % g.q.split('::')[-1], idle, function=g.q, key='POOL|%s|slab-free-idle' % g.q,
                   message='%s unlinks a slab for deletion without having established that none of its objects is in use (IsInUse() == false): objects that are still referenced are destroyed and '
                           'their memory freed while Refs to them exist' % g.q)
    if n_sf < 2:
        raise AnalysisBroken('POOL: only %d slab-discarding sites found' % n_sf)
    # guarded-by for the slab list heads
    FIELDS = ('_firstSlab', '_lastSlab', '_curPoolSize')
    for g in sorted(pfuncs, key=lambda g: g.line):
        short = g.q.split('::')[-1]
        if short in ('(ctor)', '(dtor)'):
            continue
        acc = [m for m in g.walk() if m['k'] == 'MemberExpr' and m.get('n') in FIELDS and A.is_this_member(m)]
        if not acc:
            continue
        bad = [m for m in acc if ('this', '_mutex') not in cl.held_at(g, m)]
        res.ob('POOL', g.where(bad[0]) if bad else g.where(), '%d access(es) to the slab list in %s hold _mutex' % (len(acc), short), not bad, function=g.q,
               how='must-hold lock set contains _mutex%s' % (' (assumed at entry: held at all call sites)' if cl.entry.get(g.id) else ''), key='POOL|%s|lockset' % g.q,
               message='%s touches %s at line %s without holding the pool mutex' % (g.q, bad[0].get('n') if bad else '', bad[0].get('l') if bad else ''))
    # ---- round-2 additions
    n_cast = 0
    for f in sorted((f for f in fx.funcs.values() if f.full and re.search(r'^muscle::(CastAwayConstFromRef|CastAwayConstFromConstRef)', f.q)), key=lambda f: (f.file, f.line, f.id)):
        for c in f.walk():
            if c['k'] == 'CXXMemberCallExpr' and (c.get('q') or '').endswith('::SetRef') and c.args():
                n_cast += 1
                okc = len(c.args()) >= 2 and c.args()[1]['k'] != 'CXXDefaultArgExpr' and any(x.is_call() and (x.get('q') or '').endswith('::IsRefCounting') for x in c.args()[1].walk())
                res.ob('REF-PAIR', f.where(c), 'CastAwayConstFromRef forwards the source\'s counting flag to SetRef', okc, function=f.q, key='REF-PAIR|muscle::CastAwayConstFromRef|forward-counting',
                       message='CastAwayConstFromRef calls SetRef(item) with the default doRefCount=true: the const-cast of a non-counting reference (DummyConstRef, a stack or member object) yields an owning Ref; '
                               'when it dies the count goes 0 -> 1 -> 0 and the object is deleted although its real owner is still using it (double destruction)')
    rcc = [f for f in fx.funcs.values() if f.q == 'muscle::RefCountable::(ctor)' and len(f.params) == 1 and 'RefCountable' in f.ptype(f.params[0])]
    for f in rcc[:1]:
        mi = [i_ for i_ in f.inits if i_.get('field') == '_manager']
        okm = True
        for i_ in mi:
            e = i_.get('e')
            if e is not None and any(x['k'] in ('MemberExpr', 'DeclRefExpr') and (x.get('n') == '_manager' or x.get('d') == f.params[0]['d']) for x in e.walk()):
                okm = False
        n_cast += 1
        res.ob('POOL', f.where(), 'the RefCountable copy constructor does not copy the manager pointer', okm, function=f.q, key='POOL|muscle::RefCountable|copy-no-manager',
               message='RefCountable\'s copy constructor copies _manager from the source: a heap-allocated copy of a pooled object claims to belong to the pool; when its last Ref goes away it is handed to '
                       'ObjectPool::ReleaseObject(), which treats the heap block as a slab slot (bogus index, write to a bogus slab address)')
    if n_cast < 2:
        raise AnalysisBroken('REF-PAIR/POOL round-2: CastAwayConstFromRef / RefCountable copy constructor not found (%d)' % n_cast)
    # ---- REF-PAIR (order): when a Ref switches items the new item is referenced before the old one is released
    for f in sorted(methods, key=lambda f: f.line):
        if f.q.split('::')[-1] != 'SetRef':
            continue
        rels = [c for c in P.calls(f, r'::(UnrefItem|UnrefItemAux)$') if c.receiver() is None or A.strip_casts(c.receiver())['k'] == 'CXXThisExpr']
        refs = P.calls(f, r'::RefItem$')
        bad = None
        for r_ in rels:
            for a_ in refs:
                rp, ap = P.pos_of(f, r_), P.pos_of(f, a_)
                if rp and ap and ((rp[0] == ap[0] and rp[1] < ap[1]) or C.can_reach(f, rp, set([ap]))):
                    bad = (r_, a_)
        res.ob('REF-PAIR', f.where(), 'SetRef references the new item before it releases the old one', bad is None and bool(refs), function=f.q, key='REF-PAIR|%s|ref-new-before-release-old' % f.q,
               message='%s releases the old item (line %s) before it references the new one (line %s): when the old item holds the only other reference to the new item (cur = cur()->_next on a '
                       'linked list) the release destroys the new item, and the Ref then points at — and increments the count of — a freed object' % (f.q, bad[0].get('l') if bad else '', bad[1].get('l') if bad else ''))
    res.explanation = ('Static decision of the release-exactly-once structure on forced instantiations: the last-reference decision is one atomic RMW; delete/recycle only under that decision, the counting bit and '
                       'allowDelete; every store into ConstRef::_item is bracketed by the matching count operations (per-method obligations on ConstRef<ByteBuffer>); the pool resets an object and clears its '
                       'manager before it re-enters the free list, manipulates the slab lists only under its mutex and deletes slabs outside it. Interleavings, ABA and the pool\'s sanity-check invariants are not explored.')
    res.assumptions = ['std::atomic<int> pre-increment/decrement are single atomic RMW operations', 'PointerAndBits::SetPointerAndBits stores exactly its arguments']
    res.not_decided = ['thread interleavings', 'ObjectPool::PerformSanityCheck invariants', 'Ref const-cast paths beyond ConstRef\'s own members']
