"""C17  String behaves as an ideal byte string — decided clause: serialisation only.
EFFECT (FlattenedSize == Length()+1 == bytes written, NUL included), READER (Unflatten = SetCstr(ReadCString()) + sticky status; ReadCString stays inside the
buffer and flags unterminated input), STICKY.  All in-memory string operations, the small-buffer boundary and aliasing are not decided."""
import re
from msa import effect as E
from msa import ast as A
from msa import cfg as C
from msa import pair as P
from msa import sticky as S
from msa.facts import AnalysisBroken
from . import common
from .C01 import find

ST = 'muscle::String'


def run(res, tier):
    fx = common.load_units(res, ['util/String.cpp', 'message/Message.cpp'], fn_regex=r'^muscle::(String|DataFlattenerHelper|DataUnflattenerHelper)(::|$)')
    res.functions_analysed = sum(1 for f in fx.funcs.values() if f.full)
    res.rule('EFFECT', 'String::FlattenedSize() is Length()+1 and String::Flatten writes exactly that many bytes starting at Cstr() (so the terminating NUL is part of the encoding)', floor=2)
    try:
        wf, ev = find(fx, ST, 'Flatten')
        sf, ev2 = find(fx, ST, 'FlattenedSize')
        w = ev.io_bytes(wf, 0)
        sz = ev2.fn_value(sf, {})
    except E.Outside as e:
        raise AnalysisBroken('String codec outside the evaluator fragment: %s' % e)
    res.ob('EFFECT', wf.where(), 'bytes written by String::Flatten == String::FlattenedSize', w == sz, how=E.pstr(w)[:200], function=wf.q, key='EFFECT|%s|size' % ST,
           message='String::Flatten writes %s bytes, FlattenedSize returns %s' % (E.pstr(w), E.pstr(sz)))
    # size is Length()+1: evaluate FlattenedSize with Length() kept opaque
    ret = E.simple_return(sf)
    ok = False
    if ret is not None and ret['k'] == 'BinaryOperator' and ret.get('op') == '+':
        l, r = A.strip_casts(ret['ch'][0]), A.strip_casts(ret['ch'][1])
        ok = (l.is_call() and (l.get('q') or '') == ST + '::Length' and r.get('v') == 1) or (r.is_call() and (r.get('q') or '') == ST + '::Length' and l.get('v') == 1)
    res.ob('EFFECT', sf.where(), 'String::FlattenedSize() == Length() + 1', ok, how=ret.text() if ret is not None else None, function=sf.q, key='EFFECT|%s|length-plus-one' % ST,
           message='String::FlattenedSize is no longer Length()+1: the encoding loses its NUL terminator (or gains extra bytes), so readers that rely on the terminator run past the string')
    src = False
    for c in wf.walk():
        if c['k'] == 'CXXMemberCallExpr' and (c.get('q') or '').endswith('DataFlattenerHelper::WriteBytes') and c.args():
            src = any((x.get('q') or '') == ST + '::Cstr' for x in c.args()[0].walk() if x.is_call())
        if c['k'] == 'CXXMemberCallExpr' and (c.get('q') or '').endswith('DataFlattenerHelper::WriteCString') and c.args():
            src = any((x.get('q') or '') == ST + '::Cstr' for x in c.args()[0].walk() if x.is_call())
    res.ob('EFFECT', wf.where(), 'the bytes written start at Cstr()', src, function=wf.q, key='EFFECT|%s|source' % ST, message='String::Flatten no longer writes the string\'s own character buffer')
    # ------------------------------------------------------------------------------------------- READER
    res.rule('READER', 'String::Unflatten sets the string from ReadCString(); ReadCString scans only inside the available bytes and, when no NUL is found, sets the sticky error status and does not advance', floor=3)
    uf, _ = find(fx, ST, 'Unflatten')
    setc = [c for c in P.calls(uf, r'^muscle::String::SetCstr$') if c.args() and any((x.get('q') or '').endswith('DataUnflattenerHelper::ReadCString') for x in c.args()[0].walk() if x.is_call())]
    res.ob('READER', uf.where(), 'String::Unflatten = SetCstr(unflat.ReadCString())', bool(setc), function=uf.q, key='READER|%s|setcstr' % ST, message='String::Unflatten no longer takes its contents from ReadCString()')
    rcs = [f for f in fx.funcs.values() if f.full and f.q == 'muscle::DataUnflattenerHelper::ReadCString' and 'DummySizeChecker' not in f.name]
    if not rcs:
        raise AnalysisBroken('DataUnflattenerHelper::ReadCString (checked variant) not instantiated in the analysed units')
    f = rcs[0]
    loops = [n for n in f.walk() if n['k'] in ('WhileStmt', 'ForStmt')]
    bounded = False
    limit = None
    for lp in loops:
        cond = lp.role('cond')
        if cond is None:
            continue
        for (a, t) in A.implied_atoms(cond, True):
            for (l_, op_, r_) in A.rel_forms(a, t):
                if op_ == '<' and 'd' in l_ and 'd' in r_:
                    lim = r_['d']
                    for v in f.walk():
                        if v['k'] == 'VarDecl' and v['d'] == lim and v['ch'] and any(x.get('n') == '_readFrom' for x in v['ch'][0].walk()) and \
                                any('d' in x and x['k'] == 'DeclRefExpr' for x in v['ch'][0].walk()):
                            bounded = True
                            limit = lim
    res.ob('READER', f.where(), 'ReadCString scans while (cursor < _readFrom + bytesAvailable)', bounded, function=f.q, key='READER|%s|bounded-scan' % f.q,
           message='ReadCString\'s scan for the terminator is no longer bounded by the bytes available: unterminated input is read past the end of the buffer')
    # not found => status error, return without Advance
    flagged = False
    for blk in f.blocks.values():
        if blk.cond is None or blk.cond not in f.nodes or len(blk.succ) != 2:
            continue
        n = A.strip_casts(f.nodes[blk.cond])
        eqs = [(tr_, l_, r_) for tr_ in (True, False) for (l_, op_, r_) in A.rel_forms(n, tr_) if op_ == '==' and limit is not None and r_.get('d') == limit]
        if eqs:
            tgt = blk.succ[0 if eqs[0][0] else 1]       # the edge on which cursor == limit (terminator not found)
            reach = C.reachable_blocks(f, tgt)
            sets = adv = False
            for b in reach:
                for e in f.blocks[b].elems:
                    x = f.nodes.get(e) if isinstance(e, int) else None
                    if x is None:
                        continue
                    if x['k'] in ('CXXOperatorCallExpr', 'BinaryOperator', 'CompoundAssignOperator') and any(y.get('n') == '_status' for y in x.walk()) and \
                            ((x.get('q') or '').endswith('operator|=') or (x.get('q') or '').endswith('operator=') or x.get('op') in ('=', '|=')):
                        sets = True
                    if x.is_call() and (x.get('q') or '').endswith('::Advance'):
                        adv = True
            flagged = sets and not adv
    res.ob('READER', f.where(), 'ReadCString: terminator not found => sticky status set, no Advance', flagged, function=f.q, key='READER|%s|unterminated' % f.q,
           message='ReadCString no longer flags unterminated input through the sticky status (or advances past the buffer): String::Unflatten accepts a string without terminator')
    S.sticky_rule(res, fx, 'STICKY', file_re=r'^util/String\.', floor=1)
    # ---- round-1 additions (in-memory clause, two structural necessary conditions)
    fs = fx
    res.units = sorted(set(res.units + ['util/String.cpp', 'message/Message.cpp']))
    smeth = sorted((f for f in fs.funcs.values() if f.full and f.cls == 'muscle::String'), key=lambda f: (f.file, f.line))
    res.rule('LENGTH-LAST', 'in every String method SetLength() is the commit point: no memmove/memcpy/memset on the character buffer is reachable after it (in small-buffer mode SetLength() rewrites the '
                            'last byte of the inline buffer, which is the NUL terminator of a 15-character string)', floor=5)
    n_ll = 0
    for f in smeth:
        sl = [c for c in f.walk() if c.is_call() and (c.get('q') or '').endswith('String::SetLength')]
        mv = [c for c in f.walk() if c.is_call() and (c.get('q') or '') in ('memmove', 'memcpy', 'memset', 'strcpy', 'strncpy')]
        if not sl or not mv:
            continue
        n_ll += 1
        bad = None
        for s_ in sl:
            for m in mv:
                sp, mp = P.pos_of(f, s_), P.pos_of(f, m)
                if sp and mp and ((sp[0] == mp[0] and sp[1] < mp[1]) or C.can_reach(f, sp, set([mp]))):
                    bad = (s_, m)
        res.ob('LENGTH-LAST', f.where(), '%s: buffer moves precede SetLength()' % f.q.split('::')[-1], bad is None, function=f.q, key='LENGTH-LAST|%s' % f.q,
               message='%s calls %s (line %s) after SetLength() (line %s): for a string that exactly fills the inline buffer SetLength() has already overwritten the terminator byte, so the move copies '
                       'a non-NUL byte: the string loses its terminator (comparisons run past the object, Flatten() writes no NUL)' % (f.q, bad[1].get('q') if bad else '', bad[1].get('l') if bad else '', bad[0].get('l') if bad else ''))
    res.rule('SELF-ALIAS', 'a String method that takes a const char * and may move its own buffer while keeping the contents (EnsureBufferSize(n, true, ...) / Prealloc) before reading from that pointer '
                           'evaluates IsCharInLocalArray(ptr) on every path before the buffer can move', floor=2)
    n_sa = 0
    for f in smeth:
        cps = [p_ for p_ in f.params if f.ptype(p_).replace(' ', '') in ('constchar*', 'constchar*const')]
        if not cps or f.q.endswith('(ctor)'):
            continue           # (a constructor's argument cannot point into the object being constructed)
        grow = [c for c in f.walk() if c['k'] == 'CXXMemberCallExpr' and (((c.get('q') or '').endswith('String::EnsureBufferSize') and len(c.args()) >= 2 and c.args()[1].get('v') in (1, True))
                                                                       or (c.get('q') or '').endswith('String::Prealloc'))]
        if not grow:
            continue
        for p_ in cps:
            reads_after = False
            for g in grow:
                gp = P.pos_of(f, g)
                for u in f.walk():
                    if u['k'] == 'DeclRefExpr' and u.get('d') == p_['d']:
                        up = P.pos_of(f, u)
                        if gp and up and ((gp[0] == up[0] and gp[1] < up[1]) or C.can_reach(f, gp, set([up]))):
                            reads_after = True
            if not reads_after:
                continue
            n_sa += 1
            chk = [c for c in f.walk() if c.is_call() and (c.get('q') or '').endswith('String::IsCharInLocalArray') and any(x['k'] == 'DeclRefExpr' and x.get('d') == p_['d'] for x in c.walk())]
            ok = bool(chk) and all(P.must_precede(f, chk, g) for g in grow)
            # … and found FALSE: the diversion to a temporary copy must not depend on anything but the alias test (moving the contents in place — memmove opening a gap — clobbers an
            # aliased operand just as a reallocation does)
            if ok:
                chk_ids = set(c['i'] for c in chk)
                for g in grow:
                    paths, complete = C.paths_between(f, (f.entry, -1), P.pos_of(f, g))
                    if not complete or not paths:
                        ok = False
                    for asg in paths:
                        if not any(not t and (cid in chk_ids or any(x['i'] in chk_ids for x in f.nodes[cid].walk())) for cid, t in asg.items()):
                            ok = False
            res.ob('SELF-ALIAS', f.where(), '%s evaluates IsCharInLocalArray(%s) on every path before the buffer can move' % (f.q.split('::')[-1], p_.get('n')), ok, function=f.q, key='SELF-ALIAS|%s' % f.q,
                   message='%s can reallocate (or move from the inline buffer to the heap) before it reads from `%s` without having tested whether that pointer refers into the string itself: '
                           's += s() on a short string appends bytes of the overwritten inline storage (pointer/length fields) instead of the text' % (f.q, p_.get('n')))
    # a method that reads from a const char * with memmove (i.e. tolerates a pointer into its own buffer) does not release its buffer before that read
    for f in smeth:
        cps = [p_ for p_ in f.params if f.ptype(p_).replace(' ', '') in ('constchar*', 'constchar*const')]
        if not cps or f.q.endswith('(ctor)'):
            continue
        mv = [c for c in f.walk() if c.is_call() and (c.get('q') or '') == 'memmove' and len(c.args()) >= 2 and any(x['k'] == 'DeclRefExpr' and x.get('d') == cps[0]['d'] for x in c.args()[1].walk())]
        if not mv:
            continue
        n_sa += 1
        frees = [c for c in f.walk() if c.is_call() and re.search(r'String::(ClearAndFlush|Clear|SetBuffer)$|^(free|muscleFree)$', c.get('q') or '')]
        bad = None
        for fr in frees:
            for m in mv:
                a, b = P.pos_of(f, fr), P.pos_of(f, m)
                if a and b and ((a[0] == b[0] and a[1] < b[1]) or C.can_reach(f, a, set([b]))):
                    bad = (fr, m)
        res.ob('SELF-ALIAS', f.where(), '%s does not release its buffer before the memmove that reads from `%s`' % (f.q.split('::')[-1], cps[0].get('n')), bad is None, function=f.q,
               key='SELF-ALIAS|%s|no-free-before-read' % f.q,
               message='%s releases its character buffer (%s, line %s) before the memmove that reads from `%s` (line %s): the method is written to accept a pointer into its own buffer (hence memmove), '
                       'and in that case the source is read after it was freed' % (f.q, (bad[0].get('q') or '').split('::')[-1] if bad else '', bad[0].get('l') if bad else '', cps[0].get('n'), bad[1].get('l') if bad else ''))
    if n_ll < 5 or n_sa < 2:
        raise AnalysisBroken('LENGTH-LAST / SELF-ALIAS matched %d / %d String methods' % (n_ll, n_sa))
    # ---- STALE-PTR: a pointer into a String's characters does not survive a buffer move of that String
    res.rule('STALE-PTR', 'in a String method no `const char *` local that was read from a String\'s character buffer (operator(), Cstr(), GetBuffer() — of *this or of an argument, which may be *this) '
                          'before a contents-keeping buffer move (EnsureBufferSize(n, true, …) / Prealloc) is used after it', floor=1)
    n_sp = 0
    for f in smeth:
        grow = [c for c in f.walk() if c['k'] == 'CXXMemberCallExpr' and (((c.get('q') or '').endswith('String::EnsureBufferSize') and len(c.args()) >= 2 and c.args()[1].get('v') in (1, True))
                                                                       or (c.get('q') or '').endswith('String::Prealloc'))
                and (c.receiver() is None or A.strip_casts(c.receiver())['k'] == 'CXXThisExpr')]
        if not grow:
            continue
        n_sp += 1
        bad = None
        for v in f.walk():
            if v['k'] != 'VarDecl' or not v['ch'] or not re.search(r'char \*( const)?$', v.type().strip()):
                continue
            src = [x for x in v['ch'][0].walk() if x.is_call() and re.search(r'String::(operator\(\)|Cstr|GetBuffer)$', x.get('q') or '')]
            if not src:
                continue
            for g_ in grow:
                vp, gp = P.pos_of(f, v), P.pos_of(f, g_)
                if not (vp and gp and ((vp[0] == gp[0] and vp[1] < gp[1]) or C.can_reach(f, vp, set([gp])))):
                    continue
                for u in f.walk():
                    if u['k'] == 'DeclRefExpr' and u.get('d') == v['d']:
                        up = P.pos_of(f, u)
                        if up and ((gp[0] == up[0] and gp[1] < up[1]) or C.can_reach(f, gp, set([up]))):
                            bad = bad or (v, g_, u)
        res.ob('STALE-PTR', f.where(bad[0]) if bad else f.where(grow[0]), '%s: no character pointer saved before the buffer can move is used after it' % f.q.split('::')[-1], bad is None, function=f.q,
               key='STALE-PTR|%s' % f.q,
               message='%s reads `%s` from a String\'s buffer (line %s), may then move its own buffer (line %s) and uses the saved pointer afterwards (line %s): when the argument is the String itself '
                       '(s += s) the pointer refers to the old buffer — for an inline string that is the storage just overwritten with the heap pointer, length and capacity — so garbage is appended '
                       'where a separate copy of the operand gives the right answer' % ((f.q, bad[0].get('n'), bad[0].get('l'), bad[1].get('l'), bad[2].get('l')) if bad else (f.q, '', '', '', '')))
    if n_sp < 1:
        raise AnalysisBroken('STALE-PTR: no String method with a contents-keeping buffer move found')
    # ---- CHAR-ORDER: "same as strcmp() except ...": bytes are ordered as unsigned values
    from msa import guards as G
    res.rule('CHAR-ORDER', 'in util/String.cpp an ordering comparison (<, <=, >, >=) of two non-constant operands of plain `char` type (a signed type here) is made only where both operands are known to be '
                           'digits: strcmp(), memcmp() and String::CompareTo() order bytes as unsigned char, so for a byte >= 0x80 (any multi-byte UTF-8 character) a signed comparison gives the opposite sign', floor=2)
    n_co = 0
    CH = re.compile(r'^(const )?(char|nat_char)( const)?$')
    for f in sorted((f for f in fx.funcs.values() if f.full and f.file.endswith('util/String.cpp')), key=lambda f: (f.file, f.line)):
        for c in f.walk():
            if c['k'] != 'BinaryOperator' or c.get('op') not in ('<', '<=', '>', '>=') or len(c['ch']) != 2:
                continue
            l_, r_ = A.strip_casts(c['ch'][0]), A.strip_casts(c['ch'][1])
            if 'v' in l_ or 'v' in r_ or not CH.match(l_.type().strip()) or not CH.match(r_.type().strip()):
                continue
            # an explicit cast to unsigned char on the way is what makes it right
            def has_ucast(e):
                return any(x['k'] in ('CStyleCastExpr', 'CXXStaticCastExpr', 'CXXFunctionalCastExpr') and re.search(r'unsigned char|uint8', x.type()) for x in e.walk())
            if has_ucast(c['ch'][0]) and has_ucast(c['ch'][1]):
                continue
            n_co += 1
            digits = set()
            for (cn, t) in G.atoms_at(f, c):
                core, pol = A.bool_polarity(cn, t)
                if pol and core.is_call() and re.search(r'(isdigit|IsDigit)$', core.get('q') or '') and core.args():
                    digits.add(A.render_key(A.strip_casts(core.args()[0])))
            ok = A.render_key(l_) in digits and A.render_key(r_) in digits
            res.ob('CHAR-ORDER', f.where(c), '%s line %s: `%s` orders two chars that are both known to be digits' % (f.q.split('::')[-1], c.get('l'), c.text(30)), ok, function=f.q,
                   key='CHAR-ORDER|%s|%s' % (f.q, c.text(30)),
                   message='%s orders two bytes with `%s` on operands of type char (signed): NumericAwareStrcmp()/String::NumericAwareCompareTo() are documented as "same as strcmp() except that numbers '
                           'sort numerically", but for the UTF-8 string "ete" with acute accents (bytes c3 a9 74 c3 a9) vs "zoo" strcmp() > 0 and this comparison says < 0 — every byte >= 0x80 sorts before all ASCII' % (f.q, c.text(30)))
    if n_co < 2:
        raise AnalysisBroken('CHAR-ORDER: only %d ordering comparisons of char operands found in util/String.cpp' % n_co)
    res.explanation = ('Static decision of the serialisation clause of C17 only: symbolic evaluation shows String::Flatten writes FlattenedSize() == Length()+1 bytes from Cstr(); the reader takes a NUL-terminated '
                       'string whose scan is bounded by the bytes available and whose failure sets the sticky status, which String::Unflatten consults before returning OK. '
                       'Everything else in C17 (in-memory operations, small-buffer boundary, aliasing) is not decided.')
    res.assumptions = ['String::Cstr() points at Length() bytes followed by a NUL (class invariant, not verified here)']
    res.not_decided = ['all in-memory String operations', 'small-buffer / heap transitions', 'self-aliasing operands']
