"""C16  Queue behaves as an ideal double-ended sequence — decided clause: slots outside the item window are default, or are made default before they are exposed.
DEFAULT-OUTSIDE-WINDOW, evaluated per forced instantiation (Queue<int32>, Queue<String>, Queue<ByteBufferRef>): IsPerItemClearNecessary() folds to a constant per
instantiation; where it is true every shrink of _itemCount resets the vacated slot(s) on every feasible path, where it is false every growth of _itemCount over
slots it did not assign sets them to the default item first."""
import re
from msa import pair as P
from msa import ip as IP
from msa import guards as G
from msa import ast as A
from msa import cfg as C
from msa.facts import AnalysisBroken
from . import common

Q = 'muscle::Queue'
INSTS = [('int', 'Queue<int>'), ('String', 'Queue<muscle::String>'), ('ByteBufferRef', 'Queue<muscle::Ref<muscle::ByteBuffer>>')]


def count_writes(f):
    """[(node, kind)] kind: 'dec' | 'inc' | 'set0' | 'set' for writes of this->_itemCount"""
    out = []
    for n in f.walk():
        k = n['k']
        if k == 'UnaryOperator' and n.get('op') in ('post--', 'pre--', 'post++', 'pre++') and A.strip_casts(n['ch'][0]).get('n') == '_itemCount':
            out.append((n, 'dec' if '--' in n['op'] else 'inc'))
        elif k in ('BinaryOperator', 'CompoundAssignOperator') and n.get('op') in A.ASSIGN_OPS:
            # chained a = b = c = 0
            l = A.strip_casts(n['ch'][0])
            if l['k'] == 'MemberExpr' and l.get('n') == '_itemCount' and A.is_this_member(l):
                if n['op'] == '-=':
                    out.append((n, 'dec'))
                elif n['op'] == '+=':
                    out.append((n, 'inc'))
                else:
                    r = n['ch'][1]
                    v = r.get('v')
                    if v is None:
                        # innermost value of a chain
                        x = A.strip_casts(r)
                        while x['k'] == 'BinaryOperator' and x.get('op') == '=':
                            x = A.strip_casts(x['ch'][1])
                        v = x.get('v')
                    out.append((n, 'set0' if v == 0 else 'set'))
    return out


def default_stores(f):
    """assignments of the default item into a slot: X[..] = GetDefaultItem()  /  X[..] = <ref initialised from GetDefaultItem()>"""
    drefs = set()
    for v in f.walk():
        if v['k'] == 'VarDecl' and v['ch'] and any((x.get('q') or '').endswith('::GetDefaultItem') for x in v['ch'][0].walk() if x.is_call()):
            drefs.add(v['d'])
    out = []
    for n in f.walk():
        lhs = rhs = None
        if n['k'] == 'BinaryOperator' and n.get('op') == '=':
            lhs, rhs = n['ch'][0], n['ch'][1]
        elif n['k'] == 'CXXOperatorCallExpr' and (n.get('q') or '').endswith('::operator=') and len(n['ch']) >= 3:
            lhs, rhs = n['ch'][1], n['ch'][2]
        if lhs is None:
            continue
        l = A.strip_casts(lhs)
        if l['k'] not in ('ArraySubscriptExpr',):
            continue
        isdef = any((x.get('q') or '').endswith('::GetDefaultItem') for x in rhs.walk() if x.is_call()) or any(x['k'] == 'DeclRefExpr' and x.get('d') in drefs for x in rhs.walk())
        if isdef:
            out.append(n)
    return out


def store_loops(f, stores):
    """for default stores inside loops: the outermost enclosing loop's condition node stands for 'the reset loop ran'
    (a loop that iterates zero times had nothing to reset)"""
    out = []
    for s in stores:
        outer = None
        for a in s.ancestors():
            if a['k'] in ('ForStmt', 'WhileStmt'):
                outer = a
        if outer is not None and outer.role('cond') is not None:
            out.append(outer.role('cond'))
        else:
            out.append(s)
    return out


def const_edges(f, fx, clear_needed):
    """edges that contradict the per-instantiation constant IsPerItemClearNecessary()"""
    out = set()
    flagvars = set()
    for v in f.walk():
        if v['k'] == 'VarDecl' and v['ch'] and A.strip_casts(v['ch'][0]).is_call() and (A.strip_casts(v['ch'][0]).get('q') or '').endswith('::IsPerItemClearNecessary'):
            flagvars.add(v['d'])
    for blk in f.blocks.values():
        if blk.cond is None or blk.cond not in f.nodes or len(blk.succ) != 2:
            continue
        n, pol = P.strip_not(f.nodes[blk.cond])
        isflag = (n.is_call() and (n.get('q') or '').endswith('::IsPerItemClearNecessary')) or (n['k'] == 'DeclRefExpr' and n.get('d') in flagvars)
        if isflag:
            # cond true <=> flag == pol ; feasible edge: flag == clear_needed
            true_feasible = (pol == clear_needed)
            out.add((blk.b, 1 if true_feasible else 0))
    return out


def run(res, tier):
    fx = common.load_units(res, [], fn_regex=r'^muscle::Queue(::|$)', extra=[common.INSTANTIATE])
    res.rule('DEFAULT-OUTSIDE-WINDOW', 'per Queue instantiation: if IsPerItemClearNecessary() is true every decrease of _itemCount resets the vacated slot(s) to the default item on every feasible path; '
                                       'if it is false every increase of _itemCount over unassigned slots is preceded by a loop that sets them to the default item', floor=12)
    total = 0
    for (label, inst) in INSTS:
        funcs = [f for f in fx.funcs.values() if f.full and f.q.startswith(Q + '::') and (inst + '::') in f.name]
        if len(funcs) < 60:
            raise AnalysisBroken('Queue instantiation %s: only %d members found' % (inst, len(funcs)))
        ipc = [f for f in funcs if f.q.endswith('::IsPerItemClearNecessary')]
        if not ipc:
            raise AnalysisBroken('IsPerItemClearNecessary not instantiated for %s' % inst)
        rets = [n for n in ipc[0].walk() if n['k'] == 'ReturnStmt']
        if len(rets) != 1 or 'v' not in rets[0]['ch'][0]:
            raise AnalysisBroken('IsPerItemClearNecessary for %s does not fold to a constant' % inst)
        clear_needed = bool(rets[0]['ch'][0]['v'])
        res.info('DEFAULT-OUTSIDE-WINDOW', ipc[0].where(), '%s: IsPerItemClearNecessary() == %s' % (inst, clear_needed))
        # EnsureSizeAux and the private helpers it was split into (msa/ip.py): the growth obligations follow the code
        ensure_scope = set()
        for f0 in funcs:
            if f0.q.endswith('::EnsureSizeAux'):
                ensure_scope |= set(g_.id for g_ in IP.scope(fx, f0, r'^muscle::Queue::', single_caller=False) if (inst + '::') in g_.name and g_.q.split('::')[-1].startswith('EnsureSize'))
        for f in sorted(funcs, key=lambda f: f.line):
            short = f.q.split('::')[-1]
            if short in ('(ctor)', '(dtor)'):
                continue
            cw = count_writes(f)
            if not cw:
                continue
            infeasible = const_edges(f, fx, clear_needed)
            live = C.reachable_blocks(f, f.entry, avoid_edges=infeasible)
            stores = default_stores(f)
            for (w, kind) in cw:
                wp = P.pos_of(f, w)
                if wp is None or wp[0] not in live:
                    continue          # site unreachable in this instantiation (other side of the constant)
                where = f.where(w)
                key = 'DEFAULT-OUTSIDE-WINDOW|%s<%s>|%s:%s' % (f.q, label, kind, short)
                if kind in ('dec', 'set0') and clear_needed:
                    total += 1
                    if short == 'FastClear':
                        # documented not to reset items; its only internal caller must have reset them first
                        callers = [g for g in funcs if any(c.is_call() and c.get('fn') == f.id for c in g.walk())]
                        ok = True
                        why = []
                        for g in callers:
                            gi = const_edges(g, fx, clear_needed)
                            st = default_stores(g)
                            calls = [c for c in g.walk() if c.is_call() and c.get('fn') == f.id]
                            if g.q.endswith('::Clear'):
                                # every feasible path to FastClear() with items present passes the reset loop or frees the array
                                esc = gi | items_absent_edges(g) | freed_edges(g)
                                ok = ok and all(P.must_precede(g, store_loops(g, st), c, esc) for c in calls) and bool(st)
                                why.append('Clear() resets every slot before FastClear() unless the array was released')
                        res.ob('DEFAULT-OUTSIDE-WINDOW', where, '%s::FastClear drops all items: internal caller Clear() has reset them' % inst, ok and bool(callers), how='; '.join(why), function=f.q, key=key,
                               message='Queue<%s>::Clear() can reach FastClear() without resetting the items: the old items stay alive in the slots and are exposed by a later EnsureSize(n, true)' % label)
                        continue
                    if short in ('ReleaseRawDataArray', 'AdoptRawDataArray', 'operator='):
                        res.ob('DEFAULT-OUTSIDE-WINDOW', where, '%s::%s hands the whole array over (no slot stays behind)' % (inst, short), True, nontrivial=False, how='frozen: array ownership transfer', function=f.q)
                        continue
                    ok, path = P.must_follow(f, w, stores, escapes=infeasible) if stores else (False, None)
                    res.ob('DEFAULT-OUTSIDE-WINDOW', where, '%s::%s shrinks the window and resets the vacated slot' % (inst, short), ok, function=f.q, key=key,
                           how='`slot = GetDefaultItem()` at line %s on every feasible path' % (stores[0].get('l') if stores else '?'),
                           message='Queue<%s>::%s decreases the item count without resetting the vacated slot to the default item: the removed item stays alive (its references are not released) and reappears when '
                                   'EnsureSize(n, true) grows the queue over that slot' % (label, short))
                elif kind in ('set',) and not clear_needed and (short == 'EnsureSizeAux' or f.id in ensure_scope):
                    total += 1
                    ok = bool(stores) and P.must_precede(f, store_loops(f, stores), w, infeasible | no_growth_edges(f))
                    res.ob('DEFAULT-OUTSIDE-WINDOW', where, '%s::%s grows the item count only after setting the exposed slots to the default item' % (inst, short), ok, function=f.q, key=key + ':%s' % w.get('l'),
                           how='default-store loop at line(s) %s precedes' % [s.get('l') for s in stores],
                           message='Queue<%s>::EnsureSizeAux(size, setNumItems=true) exposes slots that were never reset (trivial item types are not cleared on removal, and new[] leaves them uninitialized): '
                                   'add 5,7; remove both; EnsureSize(2,true) yields 5,7 instead of 0,0' % label)
    if total < 10:
        raise AnalysisBroken('DEFAULT-OUTSIDE-WINDOW matched only %d sites' % total)
    res.functions_analysed = sum(1 for f in fx.funcs.values() if f.full)
    # ---- round-1 additions: ring arithmetic and aliasing (decided once, on the Queue<String> instantiation; the code is the same template)
    inst = INSTS[1][1] if len(INSTS) > 1 else INSTS[0][1]
    funcs = [f for f in fx.funcs.values() if f.full and f.q.startswith(Q + '::') and (inst + '::') in f.name]
    res.rule('RING-AWARE', 'a loop that resets slots through the raw storage `_queue[i]` converts the index with InternalizeIndex()/NextIndex()/PrevIndex() (or walks the two segments of GetArrayPointer): '
                           'a plain physical index running from _headIndex to _tailIndex covers nothing when the ring is wrapped', floor=1)
    n_ra = 0
    for f in sorted(funcs, key=lambda f: f.line):
        for st in default_stores(f):
            lhs = A.strip_casts(st['ch'][0] if st['k'] == 'BinaryOperator' else st['ch'][1])
            base, idx = A.strip_casts(lhs['ch'][0]), A.strip_casts(lhs['ch'][1])
            loop = None
            for a in st.ancestors():
                if a['k'] in ('ForStmt', 'WhileStmt', 'DoStmt'):
                    loop = a
                    break
            if loop is None:
                continue
            n_ra += 1
            raw = base['k'] == 'MemberExpr' and base.get('n') == '_queue'
            ok = True
            if raw:
                ok = idx.is_call() and (idx.get('q') or '').split('::')[-1] in ('InternalizeIndex', 'NextIndex', 'PrevIndex')
            res.ob('RING-AWARE', f.where(st), '%s: reset loop at line %s addresses slots ring-aware' % (f.q.split('::')[-1], st.get('l')), ok, how='store `%s`' % lhs.text(40), function=f.q,
                   key='RING-AWARE|%s|%s' % (f.q.split('<')[0] + '::' + f.q.split('::')[-1], lhs.text(20)),
                   message='%s resets slots with `%s` in a loop over a physical index: when the ring is wrapped (_headIndex > _tailIndex) the loop does not cover the live slots, so removed items stay '
                           'alive in the buffer and are exposed again as "default" items by EnsureSize(n, true)' % (f.q, lhs.text(40)))
    if n_ra < 1:
        raise AnalysisBroken('RING-AWARE: no reset loop found')
    # reads: a loop that runs over the ITEM COUNT reads the items through the logical accessor, never through this->_queue[i] / this->_smallQueue[i]
    n_rr = 0
    for f in sorted(funcs, key=lambda f: f.line):
        for l_ in f.walk():
            if l_['k'] != 'ForStmt' or l_.role('cond') is None:
                continue
            forms = [(a_, o_, b_) for (a_, o_, b_) in A.rel_forms(l_.role('cond'), True) if o_ in ('<', '<=') and a_['k'] == 'DeclRefExpr' and 'd' in a_]
            if not forms:
                continue
            iv, _op, bnd = forms[0]

            def count_like(e, depth=0):
                for x in e.walk():
                    if (x.is_call() and (x.get('q') or '').endswith('::GetNumItems') and (x.receiver() is None or A.strip_casts(x.receiver())['k'] == 'CXXThisExpr')) or \
                            (x['k'] == 'MemberExpr' and x.get('n') == '_itemCount' and A.is_this_member(x)):
                        return True
                    if x['k'] == 'DeclRefExpr' and 'd' in x and depth < 1:
                        for v in f.walk():
                            if v['k'] == 'VarDecl' and v.get('d') == x['d'] and v['ch'] and count_like(v['ch'][0], depth + 1):
                                return True
                return False
            if not count_like(bnd):
                continue
            n_rr += 1
            bad = None
            for x in l_.walk():
                if x['k'] == 'ArraySubscriptExpr' and A.strip_casts(x['ch'][1]).get('d') == iv['d']:
                    b = A.strip_casts(x['ch'][0])
                    if b['k'] == 'MemberExpr' and b.get('n') in ('_queue', '_smallQueue') and A.is_this_member(b):
                        bad = x
            res.ob('RING-AWARE', f.where(l_), '%s: loop over the item count (line %s) does not index the raw storage' % (f.q.split('::')[-1], l_.get('l')), bad is None, function=f.q,
                   key='RING-AWARE|%s|count-loop:%s' % (f.q.split('<')[0] + '::' + f.q.split('::')[-1], l_.get('l')),
                   message='%s runs i over the item count but accesses `%s`: slot i of the storage is item i only when the ring head sits at slot 0; after AddHead()/RemoveHead() the items are '
                           'rotated (or an already removed slot is taken and a live item lost)' % (f.q, bad.text(30) if bad is not None else ''))
    if n_rr < 3:
        raise AnalysisBroken('RING-AWARE: only %d loops over the item count found' % n_rr)
    res.rule('INDEX-WRAP', 'every additive update of _headIndex/_tailIndex is reduced modulo _queueSize: `%% _queueSize`, InternalizeIndex/NextIndex/PrevIndex, or `if (idx >= _queueSize) idx -= _queueSize` '
                           '(with >=: an index equal to _queueSize is already out of range)', floor=1)
    n_iw = 0
    for f in sorted(funcs, key=lambda f: f.line):
        for n in f.walk():
            if n['k'] not in ('BinaryOperator', 'CompoundAssignOperator') or n.get('op') not in ('=', '+='):
                continue
            l = A.strip_casts(n['ch'][0])
            if not (l['k'] == 'MemberExpr' and l.get('n') in ('_headIndex', '_tailIndex') and A.is_this_member(l)):
                continue
            rhs = A.strip_casts(n['ch'][1])
            additive = n['op'] == '+=' or (rhs['k'] == 'BinaryOperator' and rhs.get('op') == '+')
            if additive and n['op'] == '+=' and A.strip_casts(n['ch'][1]).get('n') == '_queueSize':
                continue           # borrow before a subtraction (`if (idx < n) idx += _queueSize; idx -= n;`): not an advance
            if not additive:
                # `(a + b) % _queueSize` : wrapped in the same expression
                if rhs['k'] == 'BinaryOperator' and rhs.get('op') == '%' and any(x['k'] == 'BinaryOperator' and x.get('op') == '+' for x in rhs['ch'][0].walk()):
                    n_iw += 1
                    res.ob('INDEX-WRAP', f.where(n), '%s: %s is reduced with %% _queueSize' % (f.q.split('::')[-1], l.get('n')), A.strip_casts(rhs['ch'][1]).get('n') == '_queueSize', function=f.q,
                           key='INDEX-WRAP|%s|%s' % (f.q.split('<')[0] + '::' + f.q.split('::')[-1], l.get('n')), message='%s reduces %s modulo something other than _queueSize' % (f.q, l.get('n')))
                continue
            n_iw += 1
            # a following  if (idx >= _queueSize) idx -= _queueSize
            ok = False
            how = None
            for blk in f.blocks.values():
                if blk.cond is None or blk.cond not in f.nodes:
                    continue
                cn = f.nodes[blk.cond]
                if cn['k'] == 'BinaryOperator' and cn.get('op') in ('>', '>=', '<', '<=') and any(x['k'] == 'MemberExpr' and x.get('n') == l.get('n') for x in cn.walk()) \
                        and any(x['k'] == 'MemberExpr' and x.get('n') == '_queueSize' for x in cn.walk()) and C.can_reach(f, P.pos_of(f, n), set([(blk.b, len(blk.elems) - 1)])):
                    lhs_is_idx = A.strip_casts(cn['ch'][0]).get('n') == l.get('n')
                    op = cn['op'] if lhs_is_idx else {'>': '<', '>=': '<=', '<': '>', '<=': '>='}[cn['op']]
                    how = '%s' % cn.text(40)
                    ok = op == '>='
            res.ob('INDEX-WRAP', f.where(n), '%s: additive update of %s is followed by a wrap test with >=' % (f.q.split('::')[-1], l.get('n')), ok, how=how, function=f.q,
                   key='INDEX-WRAP|%s|%s' % (f.q.split('<')[0] + '::' + f.q.split('::')[-1], l.get('n')),
                   message='%s adds to %s and wraps it with `%s`: an index equal to _queueSize is left unwrapped (one past the storage); the next RemoveHead()/AddTail() then works on the wrong slot and '
                           'items are lost' % (f.q, l.get('n'), how or 'no wrap test'))
    if n_iw < 1:
        raise AnalysisBroken('INDEX-WRAP: no additive index update found')
    # ---- COPY-FITS: the reallocation path copies all _itemCount items into the new array; the requested size has been reconciled with the item count before
    res.rule('COPY-FITS', 'EnsureSizeAux: the loop that copies the current items into the newly chosen array is preceded on every path by a comparison of the requested size with _itemCount '
                          '(truncate first, or never go below the item count)', floor=1)
    n_cf = 0
    for f in sorted(funcs, key=lambda f: f.line):
        if f.q.split('::')[-1] != 'EnsureSizeAux':
            continue
        sized = f.params[0]['d']
        copies = []
        for l_ in f.walk():
            if l_['k'] == 'ForStmt' and l_.role('cond') is not None and any(x['k'] == 'MemberExpr' and x.get('n') == '_itemCount' for x in l_.role('cond').walk()):
                for x in l_.walk():
                    if x['k'] in ('BinaryOperator', 'CXXOperatorCallExpr') and ((x.get('op') == '=') or (x.get('q') or '').endswith('operator=')):
                        lhs = A.strip_casts(x['ch'][0] if x['k'] == 'BinaryOperator' else x['ch'][1])
                        if lhs['k'] == 'ArraySubscriptExpr' and A.strip_casts(lhs['ch'][0])['k'] == 'DeclRefExpr' and A.strip_casts(lhs['ch'][0]).get('d') is not None:
                            copies.append(x)
        if not copies:
            continue
        n_cf += 1
        cmps = [n for n in f.walk() if n['k'] == 'BinaryOperator' and n.get('op') in ('<', '<=', '>', '>=') and any(x['k'] == 'DeclRefExpr' and x.get('d') == sized for x in n.walk())
                and any(x['k'] == 'MemberExpr' and x.get('n') == '_itemCount' for x in n.walk())]
        ok = bool(cmps) and all(P.must_precede(f, cmps, c_) for c_ in copies)
        res.ob('COPY-FITS', f.where(copies[0]), 'EnsureSizeAux compares the requested size with _itemCount before it copies _itemCount items into the new array', ok, function=f.q,
               key='COPY-FITS|%s' % (f.q.split('<')[0] + '::EnsureSizeAux'),
               message='EnsureSizeAux copies all _itemCount items into an array chosen from the requested size alone: EnsureSize(2, true, 0, /*allowShrink*/true) on a 10-item Queue selects the 3-slot '
                       'inline buffer and writes 10 items into it (buffer overflow past the Queue object)')
    if n_cf < 1:
        raise AnalysisBroken('COPY-FITS: the copy loop of EnsureSizeAux was not found')
    res.rule('ALIAS-GUARD', 'a Queue method that shifts existing items in place (a loop that stores one item of *this into another slot of *this) and also stores items read through a parameter '
                            '(by-reference item, pointer to items, const Queue &) rules out, on every path before the shift, that the parameter refers to the items being shifted: '
                            'IsItemLocatedInThisContainer(parameter) evaluated unconditionally, resp. `&parameter == this` tested and found false', floor=3)
    n_ag = 0
    for f in sorted(funcs, key=lambda f: f.line):
        if not f.params:
            continue
        shifts = [st_ for (st_, dst, src) in item_stores(f) if dst == 'this' and any(a['k'] in ('ForStmt', 'WhileStmt', 'DoStmt') for a in st_.ancestors())
                  and any(item_of_this(x) for x in src.walk())]
        if not shifts:
            continue
        for p_ in f.params:
            pt = f.ptype(p_).strip()
            kind = 'queue' if re.search(r'^const (muscle::)?Queue<.*> ?&$', pt) else 'ptr' if pt.endswith('*') and 'const' in pt else 'ref' if pt.endswith('&') else None
            if kind is None or p_.get('d') is None:
                continue
            # the parameter is a source of items stored into *this (directly or through AddTail/AddHead/ReplaceItemAt on *this)
            feeds = [st_ for (st_, dst, src) in item_stores(f, calls=True) if any(x['k'] == 'DeclRefExpr' and x.get('d') == p_['d'] for x in src.walk())]
            if not feeds:
                continue
            n_ag += 1
            if kind == 'queue':
                ok = True
                npaths = 0
                for sft in shifts:
                    paths, complete = C.paths_between(f, (f.entry, -1), P.pos_of(f, sft))
                    ok = ok and complete and bool(paths)
                    npaths += len(paths)
                    for asg in paths:
                        ok = ok and any(op_ == '!=' and l_['k'] == 'CXXThisExpr' and r_['k'] == 'UnaryOperator' and r_.get('op') == '&' and A.strip_casts(r_['ch'][0]).get('d') == p_['d']
                                        for (cid, truth) in asg.items() for (l_, op_, r_) in A.rel_forms(f.nodes[cid], truth))
                how = '%d path(s) to the shift, each with &%s != this' % (npaths, p_.get('n'))
            else:
                chk = [c for c in f.walk() if c.is_call() and (c.get('q') or '').endswith('::IsItemLocatedInThisContainer') and any(x['k'] == 'DeclRefExpr' and x.get('d') == p_['d'] for x in c.walk())]
                ok = bool(chk) and all(P.must_precede(f, chk, sft) for sft in shifts)
                how = 'IsItemLocatedInThisContainer at line(s) %s' % [c.get('l') for c in chk]
            res.ob('ALIAS-GUARD', f.where(shifts[0]), '%s rules out that `%s` refers to its own items on every path before it shifts them' % (f.q.split('::')[-1], p_.get('n')), ok, function=f.q, how=how,
                   key='ALIAS-GUARD|%s|%s' % (f.q.split('<')[0], p_.get('n')),
                   message='%s can shift its items in place without having ruled out that `%s` refers to some of them: q.InsertItemAt(j, q[k]) / q.InsertItemsAt(j, &q[k], n) then stores items that the '
                           'shift has already overwritten (or, after a reallocation, items that were moved out of the old array) and still reports success' % (f.q, p_.get('n')))
    if n_ag < 3:
        raise AnalysisBroken('ALIAS-GUARD: only %d (method, parameter) pairs with an in-place shift found' % n_ag)
    # ---- QUEUE-SELF: q.Op(q).  A method that reads its `const Queue &` argument by logical index while it moves the items of *this cannot be run on itself: after the first
    # AddHead()/InsertItemAt()/Remove*() the same index names a different item.  The methods divert `&queue == this` to a temporary copy; that diversion must not depend on anything else.
    SHIFTERS = ('AddHead', 'AddHeadAndGet', 'InsertItemAt', 'RemoveHead', 'RemoveHeadMulti', 'RemoveItemAt', 'RemoveItemsAt', 'ReverseItemOrdering', 'Sort', 'Normalize')
    res.rule('QUEUE-SELF', 'in a Queue method with a `const Queue<ItemType> &` parameter, a call that moves the existing items of *this (AddHead, InsertItemAt, Remove*, …) while that parameter is read by '
                           'index is reached only on paths where `&parameter == this` was tested and found false', floor=1)
    n_qs = 0
    for f in sorted(funcs, key=lambda f: f.line):
        qps = [p_ for p_ in f.params if re.search(r'^const (muscle::)?Queue<.*> ?&$', f.ptype(p_).strip())]
        for qp in qps:
            sites = []
            for c in f.walk():
                if c['k'] != 'CXXMemberCallExpr' or (c.get('q') or '').split('::')[-1] not in SHIFTERS:
                    continue
                rc = c.receiver()
                if rc is not None and A.strip_casts(rc)['k'] != 'CXXThisExpr':
                    continue
                reads_p = any(x.is_call() and re.search(r'::(operator\[\]|GetItemAt\w*|Head|Tail|HeadPointer)$', x.get('q') or '') and x.receiver() is not None and A.strip_casts(x.receiver()).get('d') == qp['d'] for x in c.walk()) or \
                    any(x['k'] == 'CXXOperatorCallExpr' and (x.get('q') or '').endswith('operator[]') and len(x['ch']) > 1 and A.strip_casts(x['ch'][1]).get('d') == qp['d'] for x in c.walk())
                if reads_p:
                    sites.append(c)
            for c in sites:
                n_qs += 1
                paths, complete = C.paths_between(f, (f.entry, -1), P.pos_of(f, c))
                ok = complete and bool(paths)
                for asg in paths:
                    tested_false = False
                    for (cid, truth) in asg.items():
                        for (l_, op_, r_) in A.rel_forms(f.nodes[cid], truth):
                            if op_ == '!=' and l_['k'] == 'CXXThisExpr' and r_['k'] == 'UnaryOperator' and r_.get('op') == '&' and A.strip_casts(r_['ch'][0]).get('d') == qp['d']:
                                tested_false = True
                    ok = ok and tested_false
                res.ob('QUEUE-SELF', f.where(c), '%s: %s(%s[…]) runs only when &%s != this' % (f.q.split('::')[-1], (c.get('q') or '').split('::')[-1], qp.get('n'), qp.get('n')), ok, function=f.q,
                       key='QUEUE-SELF|%s|%s' % (f.q.split('<')[0] + '::' + f.q.split('::')[-1], (c.get('q') or '').split('::')[-1]), how='%d path(s) from the entry' % len(paths),
                       message='%s calls %s() with items read from `%s` by index on a path where `%s` can be *this: each call moves the items of *this, so the next index reads a different item '
                               '(q.AddHeadMulti(q) on [1,2,3] with spare capacity yields [1,1,3,1,2,3] instead of [1,2,3,1,2,3])'
                               % (f.q, (c.get('q') or '').split('::')[-1], qp.get('n'), qp.get('n')))
    if n_qs < 1:
        raise AnalysisBroken('QUEUE-SELF: no method that moves items while reading a Queue parameter was found (AddHeadMulti expected)')
    # ---- HEAD-TAIL: where a method re-bases the ring (assigns _headIndex and _tailIndex together), the tail is computed from the NEW head
    res.rule('HEAD-TAIL', 'in a block that assigns both _headIndex and _tailIndex (with _tailIndex = <base> + _itemCount - 1), <base> is the value just stored in _headIndex: the same expression, or '
                          '_headIndex read after that store', floor=1)
    n_ht = 0
    for f in sorted(funcs, key=lambda f: f.line):
        byblk = {}
        for w in f.walk():
            if w['k'] == 'BinaryOperator' and w.get('op') == '=' and A.strip_casts(w['ch'][0])['k'] == 'MemberExpr' and A.strip_casts(w['ch'][0]).get('n') in ('_headIndex', '_tailIndex') and A.is_this_member(A.strip_casts(w['ch'][0])):
                p_ = P.pos_of(f, w)
                if p_:
                    byblk.setdefault(p_[0], {}).setdefault(A.strip_casts(w['ch'][0])['n'], []).append((p_[1], w))
        for b, d in sorted(byblk.items()):
            if '_headIndex' not in d or '_tailIndex' not in d:
                continue
            (hi, hw), (ti, tw) = d['_headIndex'][-1], d['_tailIndex'][-1]
            te = tw['ch'][1]
            if not any(x['k'] == 'MemberExpr' and x.get('n') == '_itemCount' for x in te.walk()):
                continue
            n_ht += 1
            reads_head = any(x['k'] == 'MemberExpr' and x.get('n') == '_headIndex' for x in te.walk())
            hk = A.render_key(hw['ch'][1])
            same_base = any(A.render_key(x) == hk for x in te.walk())
            ok = (reads_head and hi < ti) or (not reads_head and same_base)
            if not reads_head and A.strip_casts(hw['ch'][1]).get('v') == 0:
                ok = True         # new head is slot 0: the tail is simply count - 1 (no base term to agree with)
            res.ob('HEAD-TAIL', f.where(tw), '%s: _tailIndex is derived from the new _headIndex' % f.q.split('::')[-1], ok, function=f.q, key='HEAD-TAIL|%s|%s' % (f.q.split('<')[0] + '::' + f.q.split('::')[-1], tw.get('l')),
                   message='%s computes `_tailIndex = %s` from the head index the ring had BEFORE `_headIndex = %s` in the same block: head and tail no longer delimit the items (for a wrapped ring the '
                           'tail lies outside the array), so the next AddTail() stores its item in the wrong slot and a later one overwrites the head' % (f.q, te.text(50), hw['ch'][1].text(30)))
    if n_ht < 1:
        raise AnalysisBroken('HEAD-TAIL: no block assigning both _headIndex and _tailIndex found')
    # ---- BAD-INDEX: "reports failure (and stays unchanged) exactly when the ideal operation is undefined (bad index, empty)"
    res.rule('BAD-INDEX', 'a Queue method that takes a logical index and turns it into a slot with InternalizeIndex(index) does so only where `index < _itemCount` (or < GetNumItems()) was established: '
                          'a bound taken from GetLastValidIndex() cast to unsigned is 0xFFFFFFFF for an empty Queue and rejects nothing', floor=3)
    n_bi = 0
    for f in sorted(funcs, key=lambda f: f.line):
        for p_ in f.params:
            if f.ptype(p_).replace('const ', '').strip() not in ('unsigned int', 'uint32', 'muscle::uint32') or p_.get('d') is None:
                continue
            # a slot access through the logical index: InternalizeIndex(p), GetItemAtUnchecked(p), (*this)[p]
            uses = [c for c in f.walk() if c.is_call() and re.search(r'Queue::(InternalizeIndex|GetItemAtUnchecked|operator\[\])$', c.get('q') or '')
                    and any(A.strip_casts(a_).get('d') == p_['d'] for a_ in c.args())
                    and not any(a.is_call() and re.search(r'::(PrevIndex|NextIndex)$', a.get('q') or '') for a in c.ancestors())]     # (one past the end, stepped back: a size, not an index)
            if not uses:
                continue

            def valid_atom(h_, cn, t, d_):
                """the atom says that the variable d_ of h_ is a valid index: d_ < _itemCount / GetNumItems(), or IsIndexValid(d_)"""
                for (l_, op_, r_) in A.rel_forms(cn, t):
                    if l_['k'] == 'DeclRefExpr' and l_.get('d') == d_ and op_ == '<' and ((r_['k'] == 'MemberExpr' and r_.get('n') == '_itemCount') or (r_.is_call() and (r_.get('q') or '').endswith('::GetNumItems'))):
                        return True
                core, pol = A.bool_polarity(cn, t)
                return bool(pol is True and core.is_call() and (core.get('q') or '').endswith('::IsIndexValid') and core.args() and A.strip_casts(core.args()[0]).get('d') == d_)
            # only methods that decide validity themselves (they contain a test of the parameter against the item count or the last valid index), and the private helpers the rest of
            # such a method was moved into (their call sites carry the test)
            tests = [x for x in f.walk() if (x['k'] == 'BinaryOperator' and x.get('op') in ('<', '<=', '>', '>=') and any(y['k'] == 'DeclRefExpr' and y.get('d') == p_['d'] for y in x.walk())
                                             and any((y['k'] == 'MemberExpr' and y.get('n') == '_itemCount') or (y.is_call() and re.search(r'::(GetNumItems|GetLastValidIndex)$', y.get('q') or '')) for y in x.walk()))
                     or (x.is_call() and (x.get('q') or '').endswith('::IsIndexValid') and x.args() and A.strip_casts(x.args()[0]).get('d') == p_['d'])]
            callers = [(h_, c_) for (h_, c_) in IP.call_sites_of(fx, f, r'^muscle::Queue::') if (inst + '::') in h_.name] if f.q.split('::')[-1].endswith('Aux') else []
            if not tests and not callers:
                continue
            n_bi += 1
            bad = None
            pidx = [k_ for k_, q_ in enumerate(f.params) if q_.get('d') == p_['d']][0]
            for u in uses:
                ok_u = any(valid_atom(f, cn, t, p_['d']) for (cn, t) in G.atoms_at(f, u))
                if not ok_u and callers:
                    # every call site passes a variable that is known to be a valid index there
                    ok_u = True
                    for (h_, c_) in callers:
                        args_ = c_.args()
                        if c_['k'] == 'CXXOperatorCallExpr' and len(args_) == len(f.params) + 1:
                            args_ = args_[1:]
                        a_ = A.strip_casts(args_[pidx]) if pidx < len(args_) else None
                        if a_ is None or a_['k'] != 'DeclRefExpr' or not any(valid_atom(h_, cn, t, a_.get('d')) for (cn, t) in G.atoms_at(h_, c_)):
                            ok_u = False
                if not ok_u:
                    bad = bad or u
            if not tests:
                tests = [u]
            res.ob('BAD-INDEX', f.where(bad) if bad is not None else f.where(uses[0]), '%s: InternalizeIndex(%s) only under %s < item count' % (f.q.split('::')[-1], p_.get('n'), p_.get('n')), bad is None,
                   function=f.q, key='BAD-INDEX|%s|%s' % (f.q.split('<')[0] + '::' + f.q.split('::')[-1], p_.get('n')),
                   message='%s converts `%s` into a slot without `%s < _itemCount` having been established (its own validity test is `%s`): on an empty Queue the operation is accepted, the item count '
                           'underflows to 4294967295 and later operations read stale slots or fail' % (f.q, p_.get('n'), p_.get('n'), tests[0].text(50)))
    if n_bi < 3:
        raise AnalysisBroken('BAD-INDEX: only %d index-validating methods found' % n_bi)
    # ---- ABANDON-INLINE: when an owning-item Queue stops using its inline buffer (its _queue is pointed somewhere else), the inline slots are reset first
    # (they are outside every later item window, and EnsureSizeAux re-adopts the inline buffer on the assumption that its slots hold default items)
    res.rule('ABANDON-INLINE', 'per owning-item instantiation: every statement that points this->_queue at something other than _smallQueue is reached only on paths where `_queue == _smallQueue` was found '
                               'false, or after the inline slots were reset (a default-store loop over _smallQueue / the items of *this, or Clear())', floor=3)
    n_ai = 0
    for f in sorted(funcs, key=lambda f: f.line):
        short = f.q.split('::')[-1]
        if short in ('(ctor)', '(dtor)'):
            continue
        sites = []
        for w in f.walk():
            if w['k'] == 'BinaryOperator' and w.get('op') == '=':
                l_ = A.strip_casts(w['ch'][0])
                if l_['k'] == 'MemberExpr' and l_.get('n') == '_queue' and A.is_this_member(l_):
                    r_ = A.strip_casts(w['ch'][1])
                    if not (r_['k'] == 'MemberExpr' and r_.get('n') == '_smallQueue' and A.is_this_member(r_)):
                        sites.append(w)
            elif w.is_call() and (w.get('q') or '').split('::')[-1] in ('muscleSwap', 'swap'):
                if any(A.strip_casts(a)['k'] == 'MemberExpr' and A.strip_casts(a).get('n') == '_queue' and A.is_this_member(A.strip_casts(a)) for a in w.args()):
                    sites.append(w)
        if not sites:
            continue
        esc = const_edges(f, fx, True) | not_small_edges(f)
        ev = store_loops(f, inline_resets(f)) + [c for c in f.walk() if c['k'] == 'CXXMemberCallExpr' and (c.get('q') or '').endswith('::Clear')
                                                  and (c.receiver() is None or A.strip_casts(c.receiver())['k'] == 'CXXThisExpr')]
        # a call of a private helper that resets the inline slots whenever the buffer is the inline one (every path through it takes a not-inline edge or passes a reset) is a reset event
        for c_ in f.walk():
            if c_.is_call() and (c_['k'] != 'CXXMemberCallExpr' or c_.receiver() is None or A.strip_casts(c_.receiver())['k'] == 'CXXThisExpr'):
                h_ = IP.helper_of(fx, c_, r'^muscle::Queue::')
                if h_ is not None and h_ is not f and (inst + '::') in h_.name:
                    rs_ = store_loops(h_, inline_resets(h_))
                    tp_ = set(P.pos_of(h_, r_) for r_ in rs_ if P.pos_of(h_, r_))
                    if tp_ and C.must_pass(h_, (h_.entry, -1), tp_, avoid_edges=const_edges(h_, fx, True) | not_small_edges(h_))[0]:
                        ev.append(c_)
        # a private helper: what every one of its call sites knows about the receiver's buffer holds at its entry (a block that was extracted keeps the facts of the place it was cut from)
        entry_heap = False
        cs = IP.call_sites_of(fx, f, r'^muscle::Queue::')
        if cs:
            entry_heap = True
            for (h, c) in cs:
                rc = c.receiver() if c['k'] == 'CXXMemberCallExpr' else None
                rk = 'this' if rc is None or A.strip_casts(rc)['k'] == 'CXXThisExpr' else A.render_key(A.strip_casts(rc))
                known = False
                for (cn, t) in G.atoms_at(h, c):
                    for (l_, op_, r_) in A.rel_forms(cn, t):
                        if op_ == '!=' and l_['k'] == 'MemberExpr' and r_['k'] == 'MemberExpr' and (l_.get('n'), r_.get('n')) == ('_queue', '_smallQueue'):
                            bk = lambda m: 'this' if A.is_this_member(m) else A.render_key(A.strip_casts(m['ch'][0])) if m.get('ch') else None
                            if bk(l_) == rk and bk(r_) == rk:
                                known = True
                # … and the receiver's _queue is not re-pointed in the caller between that test and the call
                if known and any(w2['k'] == 'BinaryOperator' and w2.get('op') == '=' and A.strip_casts(w2['ch'][0])['k'] == 'MemberExpr' and A.strip_casts(w2['ch'][0]).get('n') == '_queue'
                                 and ('this' if A.is_this_member(A.strip_casts(w2['ch'][0])) else A.render_key(A.strip_casts(A.strip_casts(w2['ch'][0])['ch'][0]))) == rk
                                 and P.pos_of(h, w2) and P.pos_of(h, c) and (C.can_reach(h, P.pos_of(h, w2), set([P.pos_of(h, c)])) or (P.pos_of(h, w2)[0] == P.pos_of(h, c)[0] and P.pos_of(h, w2)[1] < P.pos_of(h, c)[1]))
                                 for w2 in h.walk()):
                    known = False
                entry_heap = entry_heap and known
        to_small = [w2 for w2 in f.walk() if w2['k'] == 'BinaryOperator' and w2.get('op') == '=' and A.strip_casts(w2['ch'][0]).get('n') == '_queue' and A.is_this_member(A.strip_casts(w2['ch'][0]))
                    and A.strip_casts(w2['ch'][1]).get('n') == '_smallQueue']
        for w in sites:
            n_ai += 1
            ok = P.must_precede(f, ev, w, esc)
            if not ok and entry_heap and not any(P.pos_of(f, t2) and P.pos_of(f, w) and C.can_reach(f, P.pos_of(f, t2), set([P.pos_of(f, w)])) for t2 in to_small):
                ok = True
            res.ob('ABANDON-INLINE', f.where(w), '%s: `%s` leaves no item behind in the inline buffer' % (short, w.text(40)), ok, function=f.q,
                   key='ABANDON-INLINE|%s|%s' % (f.q.split('<')[0], A.strip_casts(w['ch'][1]).text(30) if w['k'] == 'BinaryOperator' else 'swap'),
                   how='reset event(s) at line(s) %s; %d exempting edge(s)' % (sorted(set(e.get('l') for e in ev)), len(esc)),
                   message='%s executes `%s` on a path where _queue can still be the inline buffer _smallQueue and its slots were not reset: for an item type that has no move assignment (or whose move '
                           'leaves the source intact) the old items stay in the unused inline slots, and when the Queue later returns to its inline buffer (Clear(true) + EnsureSize(n, true), or '
                           'ShrinkToFit()) they are exposed as if they were default items' % (f.q, w.text(40)))
    if n_ai < 3:
        raise AnalysisBroken('ABANDON-INLINE: only %d statements re-pointing _queue found' % n_ai)
    res.explanation = ('Static decision of one structural invariant of Queue, per forced instantiation: IsPerItemClearNecessary() is folded to its per-type constant and the CFG is pruned accordingly; for owning item types '
                       'every reachable decrease of _itemCount is followed by a store of the default item into the vacated slot (Clear() resets all slots before FastClear()); for trivial item types the two places '
                       'where EnsureSizeAux raises _itemCount over unassigned slots are preceded by default-store loops. Equivalence with an ideal deque is not decided.')
    res.assumptions = ['new[] value-initialises non-trivial item types through their default constructor']
    res.not_decided = ['all other Queue operations (index translation, insert/remove semantics, sorting, rotation, copy/move)', 'refinement of an ideal sequence over operation histories']


def item_of_this(x):
    """x reads or names an item slot of *this: (*this)[i], _queue[i], GetItemAtUnchecked(i) / GetItemAt / operator[] called on this"""
    x = A.strip_casts(x)
    if x['k'] == 'CXXOperatorCallExpr' and (x.get('q') or '').endswith('Queue::operator[]') and len(x['ch']) > 1:
        o = A.strip_casts(x['ch'][1])
        return o['k'] == 'CXXThisExpr' or (o['k'] == 'UnaryOperator' and o.get('op') == '*' and A.strip_casts(o['ch'][0])['k'] == 'CXXThisExpr')
    if x['k'] == 'CXXMemberCallExpr' and re.search(r'Queue::(GetItemAtUnchecked|GetItemAt|operator\[\]|Head|Tail)$', x.get('q') or ''):
        rc = x.receiver()
        return rc is None or A.strip_casts(rc)['k'] == 'CXXThisExpr'
    if x['k'] == 'ArraySubscriptExpr':
        b = A.strip_casts(x['ch'][0])
        return b['k'] == 'MemberExpr' and b.get('n') in ('_queue', '_smallQueue') and A.is_this_member(b)
    return False


def item_stores(f, calls=False):
    """[(statement, 'this'|'other', source expression)] for stores into item slots: `slot = src`, ReplaceItemAt(i, src) on *this; with calls=True also AddTail/AddHead/…(src) on *this"""
    out = []
    for n in f.walk():
        if n['k'] == 'BinaryOperator' and n.get('op') == '=':
            if item_of_this(n['ch'][0]):
                out.append((n, 'this', n['ch'][1]))
        elif n['k'] == 'CXXOperatorCallExpr' and (n.get('q') or '').endswith('::operator=') and len(n['ch']) >= 3:
            if item_of_this(n['ch'][1]):
                out.append((n, 'this', n['ch'][2]))
        elif n['k'] == 'CXXMemberCallExpr' and (n.receiver() is None or A.strip_casts(n.receiver())['k'] == 'CXXThisExpr'):
            m = (n.get('q') or '').split('::')[-1]
            if m == 'ReplaceItemAt' and len(n.args()) == 2:
                out.append((n, 'this', n.args()[1]))
            elif calls and m in ('AddTail', 'AddHead', 'AddTailAndGet', 'AddHeadAndGet') and len(n.args()) == 1:
                out.append((n, 'this', n.args()[0]))
    return out


def not_small_edges(f):
    """edges on which `_queue == _smallQueue` was found false (directly, or through a local bool initialised with that comparison)"""
    def is_small_test(n):
        """+1 if n says _queue == _smallQueue, -1 if it says !=, 0 otherwise"""
        for (l_, op_, r_) in A.rel_forms(n, True):
            if op_ in ('==', '!=') and l_['k'] == 'MemberExpr' and r_['k'] == 'MemberExpr' and set((l_.get('n'), r_.get('n'))) == set(('_queue', '_smallQueue')) \
                    and A.is_this_member(l_) and A.is_this_member(r_):
                return 1 if op_ == '==' else -1
        return 0
    flags = {}
    for v in f.walk():
        if v['k'] == 'VarDecl' and v['ch'] and v.get('d') is not None:
            t = is_small_test(A.strip_casts(v['ch'][0]))
            if t:
                flags[v['d']] = t
    out = set()
    for blk in f.blocks.values():
        if blk.cond is None or blk.cond not in f.nodes or len(blk.succ) != 2:
            continue
        n, pol = P.strip_not(f.nodes[blk.cond])
        t = is_small_test(n)
        if not t and n['k'] == 'DeclRefExpr' and n.get('d') in flags:
            t = flags[n['d']]
        if t:
            small_when_true = (t == 1) == pol
            out.add((blk.b, 1 if small_when_true else 0))     # the edge on which the queue is NOT the inline buffer
    return out


def inline_resets(f):
    """default stores into the inline buffer or into the items of *this: _smallQueue[i] = default, _queue[i] = default, (*this)[i] = default"""
    out = []
    for n in default_stores(f):
        lhs = n['ch'][0] if n['k'] == 'BinaryOperator' else n['ch'][1]
        base = A.strip_casts(A.strip_casts(lhs)['ch'][0])
        if base['k'] == 'MemberExpr' and base.get('n') in ('_smallQueue', '_queue') and A.is_this_member(base):
            out.append(n)
    drefs = set(v['d'] for v in f.walk() if v['k'] == 'VarDecl' and v['ch'] and any((x.get('q') or '').endswith('::GetDefaultItem') for x in v['ch'][0].walk() if x.is_call()))
    for n in f.walk():
        # (*this)[i] = default   (item type with a user-provided or built-in assignment)
        lhs = rhs = None
        if n['k'] == 'BinaryOperator' and n.get('op') == '=':
            lhs, rhs = n['ch'][0], n['ch'][1]
        elif n['k'] == 'CXXOperatorCallExpr' and (n.get('q') or '').endswith('::operator=') and len(n['ch']) >= 3:
            lhs, rhs = n['ch'][1], n['ch'][2]
        if lhs is None:
            continue
        l_ = A.strip_casts(lhs)
        if l_['k'] == 'CXXOperatorCallExpr' and (l_.get('q') or '').endswith('Queue::operator[]') and len(l_['ch']) > 1 and any(x['k'] == 'CXXThisExpr' for x in l_['ch'][1].walk()):
            if any((x.get('q') or '').endswith('::GetDefaultItem') for x in rhs.walk() if x.is_call()) or any(x['k'] == 'DeclRefExpr' and x.get('d') in drefs for x in rhs.walk()):
                out.append(n)
    return out


def items_absent_edges(g):
    out = set()
    for blk in g.blocks.values():
        if blk.cond is None or blk.cond not in g.nodes or len(blk.succ) != 2:
            continue
        n, pol = P.strip_not(g.nodes[blk.cond])
        if n.is_call() and (n.get('q') or '').endswith('::HasItems'):
            out.add((blk.b, 1 if pol else 0))     # edge on which the queue is empty
    return out


def freed_edges(g):
    """edge into the branch that deletes the whole array (no slot survives)"""
    out = set()
    dels = [n for n in g.walk() if n['k'] == 'CXXDeleteExpr']
    for d in dels:
        p = P.pos_of(g, d)
        if p is None:
            continue
        for blk in g.blocks.values():
            for idx, s in enumerate(blk.succ):
                if s == p[0]:
                    out.add((blk.b, idx))
    return out


def no_growth_edges(f):
    """edges on which no new slot becomes visible: `setNumItems` false, or size <= _itemCount"""
    out = set()
    for blk in f.blocks.values():
        if blk.cond is None or blk.cond not in f.nodes or len(blk.succ) != 2:
            continue
        n, pol = P.strip_not(f.nodes[blk.cond])
        if n['k'] == 'DeclRefExpr' and n.get('n') == 'setNumItems':
            out.add((blk.b, 1 if pol else 0))
    return out
