"""C14  Query filters evaluate as documented, survive archiving, tolerate bad archives — decided clauses:
ARCHIVE-SYM (everything Matches reads is saved and restored, under the same field names and kinds, with the same defaults, chaining to the same base),
FACTORY (every filter type code has a factory case creating the class that reports that code), CONST (no const removal under Matches),
HOSTILE (factory results are null-tested before use, operator codes only reach switches with a default)."""
import re
from msa import pair as P
from msa import ast as A
from msa import cfg as C
from msa.facts import AnalysisBroken
from . import common

VERBS = ('CAdd', 'Add', 'Replace', 'CReplace', 'Find', 'Get', 'Prepend')
KIND_NORM = {'ArchiveMessage': 'Message', 'Flat': 'Flat', 'Data': 'Data', 'DataPointer': 'Data'}
# members that Matches reads but that are deliberately not archived (reason each)
FROZEN_UNSAVED = {
    ('muscle::StringQueryFilter', '_matcher'): 'lazily built StringMatcher cache derived from _value/_op; SetFromArchive frees it so that it is rebuilt',
}


def kind_of(method):
    for v in VERBS:
        if method.startswith(v) and len(method) > len(v):
            k = method[len(v):]
            return KIND_NORM.get(k, k)
    return None


def this_fields_read(f):
    out = set()
    for n in f.walk():
        if n['k'] == 'MemberExpr' and n.get('dk') == 'Field' and A.is_this_member(n):
            out.add(n['n'])
    return out


def this_fields_written(f):
    out = set()
    for n in f.walk():
        k = n['k']
        if k in ('BinaryOperator', 'CompoundAssignOperator') and n.get('op') in A.ASSIGN_OPS:
            r = A.root_loc(n['ch'][0])
            if r[0] == 'm':
                out.add(r[1].split('::')[-1])
        elif k == 'CXXOperatorCallExpr' and (n.get('q') or '').endswith('::operator=') and len(n['ch']) > 1:
            r = A.root_loc(n['ch'][1])
            if r[0] == 'm':
                out.add(r[1].split('::')[-1])
        elif k == 'CXXMemberCallExpr':
            r = n.receiver()
            if r is not None and not n.get('cm'):
                rl = A.root_loc(r)
                if rl[0] == 'm':
                    out.add(rl[1].split('::')[-1])
            for a, pk in zip(n.args(), A.param_kinds(n)):
                if pk in ('mref', 'mptr'):
                    rl = A.root_loc(a)
                    if rl[0] == 'm':
                        out.add(rl[1].split('::')[-1])
        elif k == 'CallExpr':
            for a, pk in zip(n.args(), A.param_kinds(n)):
                if pk in ('mref', 'mptr'):
                    rl = A.root_loc(a)
                    if rl[0] == 'm':
                        out.add(rl[1].split('::')[-1])
    return out


def archive_ops(f):
    """[(name, kind, default canon)] for calls on the archive parameter"""
    ap = f.params[0]['d'] if f.params else None
    out = []
    for c in f.walk():
        if c['k'] == 'CXXMemberCallExpr' and c.receiver() is not None and A.strip_casts(c.receiver()).get('d') == ap:
            m = (c.get('q') or '').split('::')[-1]
            kd = kind_of(m)
            if kd is None:
                continue
            args = c.args()
            name = next((x.get('s') for a in args[:1] for x in a.walk() if x['k'] == 'StringLiteral'), None)
            if name is None:
                continue
            dflt = None
            if m.startswith('CAdd') and len(args) >= 3 and args[2]['k'] != 'CXXDefaultArgExpr':
                dflt = P_text(args[2])
            if m.startswith('Get') and len(args) >= 2 and args[1]['k'] != 'CXXDefaultArgExpr':
                dflt = P_text(args[1])
            cond = m.startswith('CAdd') or m.startswith('Get')
            out.append((name, kd, dflt, cond, c))
    return out


def P_text(n):
    n = A.strip_casts(n)
    if 'v' in n:
        return str(n['v'])
    return n.text(40)


def class_chain(fx, cls):
    out, st, seen = [], [cls], set()
    while st:
        c = st.pop(0)
        if c in seen:
            continue
        seen.add(c)
        out.append(c)
        r = fx.recs.get(c)
        if r:
            st.extend(b['name'] for b in r.get('bases', []))
    return out


def default_substitute_rule(res, fx):
    """'missing data handled by the stated default rule': a filter with an assumed default decides as if the Message contained that value.  Structurally: in Matches() the default is
    SUBSTITUTED for the value that was not found — it flows into the same local(s) as the found value, and only those locals are consumed; no consumer sees the default alone."""
    res.rule('DEFAULT-SUBSTITUTE', 'in every Matches() that reads the filter\'s _default member, the default only ever defines locals that the value found in the Message also defines (found-or-default '
                                   'substitution), and every use of it outside such a definition or a null test is a use of one of those locals', floor=3)
    n_ds = 0
    for f in sorted((f for f in fx.funcs.values() if f.full and f.q.endswith('::Matches') and 'QueryFilter' in f.q), key=lambda f: (f.file, f.line, f.id)):
        dmem = [x for x in f.walk() if x['k'] == 'MemberExpr' and x.get('n') == '_default']
        if not dmem:
            continue
        # definitions of locals: (decl id, rhs node or None for an out-parameter of a Find call)
        defs = {}
        found = set()
        def_rhs_nodes = set()
        for n in f.walk():
            if n['k'] == 'VarDecl' and n.get('d') is not None and n['ch']:
                defs.setdefault(n['d'], []).append(n['ch'][0])
                def_rhs_nodes.add(n['ch'][0]['i'])
            elif n['k'] == 'BinaryOperator' and n.get('op') == '=' and A.strip_casts(n['ch'][0])['k'] == 'DeclRefExpr' and A.strip_casts(n['ch'][0]).get('d') is not None:
                defs.setdefault(A.strip_casts(n['ch'][0])['d'], []).append(n['ch'][1])
                def_rhs_nodes.add(n['ch'][1]['i'])
            elif n.is_call() and re.search(r'^muscle::Message::Find\w+$', n.get('q') or ''):
                for a in n.args():
                    a0 = A.strip_casts(a)
                    if a0['k'] == 'UnaryOperator' and a0.get('op') == '&' and A.strip_casts(a0['ch'][0])['k'] == 'DeclRefExpr':
                        found.add(A.strip_casts(a0['ch'][0]).get('d'))
        D, F = set(), set(found)
        changed = True
        while changed:
            changed = False
            for d, rhss in defs.items():
                for r in rhss:
                    names = set(x.get('d') for x in r.walk() if x['k'] == 'DeclRefExpr')
                    if d not in D and (any(x['k'] == 'MemberExpr' and x.get('n') == '_default' for x in r.walk()) or names & D):
                        D.add(d)
                        changed = True
                    if d not in F and names & F:
                        F.add(d)
                        changed = True
        n_ds += 1
        bad = None

        def inside_def_or_test(x):
            for a in x.ancestors():
                if a['i'] in def_rhs_nodes:
                    return True
                if a['k'] in ('IfStmt', 'ConditionalOperator', 'WhileStmt') and a['ch'] and (a.role('cond') if a['k'] != 'ConditionalOperator' else a['ch'][0]) is not None:
                    c = a.role('cond') if a['k'] != 'ConditionalOperator' else a['ch'][0]
                    if c is not None and x['i'] in set(y['i'] for y in c.walk()):
                        return True          # a null / presence test of the default
            return x['i'] in def_rhs_nodes
        for x in f.walk():
            if x['k'] == 'MemberExpr' and x.get('n') == '_default' and not inside_def_or_test(x):
                bad = bad or (x, 'the member _default itself')
            if x['k'] == 'DeclRefExpr' and x.get('d') in D and x['d'] not in F and not inside_def_or_test(x):
                bad = bad or (x, 'local `%s`, which only ever holds the default' % x.get('n'))
        res.ob('DEFAULT-SUBSTITUTE', f.where(bad[0]) if bad else f.where(), '%s: the assumed default is substituted for the missing value (same locals, same processing)' % f.q.split('::')[-2], bad is None, function=f.q,
               how='locals defined from the found value and from the default: %s' % sorted(set(n_ for n_ in (next((v.get('n') for v in f.walk() if v['k'] == 'VarDecl' and v.get('d') == d), None) for d in D & F) if n_)),
               key='DEFAULT-SUBSTITUTE|%s' % f.q.split('<')[0],
               message='%s evaluates %s at line %s on a path of its own: the assumed default does not go through the processing that a value found in the Message goes through (mask operation, '
                       'conversion, comparison), so the filter no longer decides "as if the Message contained the default"' % (f.q, bad[1] if bad else '', bad[0].get('l') if bad else ''))
    if n_ds < 3:
        raise AnalysisBroken('DEFAULT-SUBSTITUTE: only %d Matches() implementations read a _default member' % n_ds)


def paired_length_rule(res, fx, rule='PAIRED-LENGTH'):
    """two (pointer, length) pairs are compared in RawDataQueryFilter::Matches: an offset into one buffer is computed from that buffer's own length"""
    res.rule(rule, 'in the Matches() methods of regex/QueryFilter.cpp an expression `buf[len - …]` (or buf + len - …) indexes a byte pointer local with the length local that was obtained together with it '
                   '(both out-arguments of one call, or GetBuffer()/GetNumBytes() of one object), never with the length of the other operand', floor=2)
    n = 0
    from msa import ip as IP
    mfs = sorted((f for f in fx.funcs.values() if f.full and f.q.endswith('::Matches') and f.file.endswith('regex/QueryFilter.cpp')), key=lambda f: f.line)
    # Matches() and the private members its second half may have been moved into (msa/ip.py): a parameter of such a helper has the origin of the variable passed at its call site
    work = [(f, {}) for f in mfs]
    seen_f = set(id(f) for f in mfs)
    while work:
        (f, seed) = work.pop(0)
        # origin of each local: ('call', node id of the call it is an out-argument of) / ('obj', render key of the object whose accessor initialised it)
        origin = dict((k_, set(v_)) for k_, v_ in seed.items())
        for c in f.walk():
            if c.is_call():
                for a in c.args():
                    a0 = A.strip_casts(a)
                    if a0['k'] == 'UnaryOperator' and a0.get('op') == '&' and A.strip_casts(a0['ch'][0])['k'] == 'DeclRefExpr':
                        origin.setdefault(A.strip_casts(a0['ch'][0]).get('d'), set()).add(('call', c['i']))
        for v in f.walk():
            if v['k'] == 'VarDecl' and v['ch']:
                for x in v['ch'][0].walk():
                    if x['k'] == 'CXXMemberCallExpr' and re.search(r'::(GetBuffer|GetNumBytes)$', x.get('q') or '') and x.receiver() is not None:
                        origin.setdefault(v['d'], set()).add(('obj', A.render_key(A.strip_casts(x.receiver()))))
        for v in f.walk():
            if v['k'] == 'BinaryOperator' and v.get('op') == '=' and A.strip_casts(v['ch'][0])['k'] == 'DeclRefExpr':
                for x in v['ch'][1].walk():
                    if x['k'] == 'CXXMemberCallExpr' and re.search(r'::(GetBuffer|GetNumBytes)$', x.get('q') or '') and x.receiver() is not None:
                        origin.setdefault(A.strip_casts(v['ch'][0]).get('d'), set()).add(('obj', A.render_key(A.strip_casts(x.receiver()))))
        changed = True
        while changed:                       # a local that is just another local (re-typed) has that local's origin
            changed = False
            for v in f.walk():
                if v['k'] == 'VarDecl' and v['ch']:
                    src = A.strip_casts(v['ch'][0])
                    if src['k'] == 'DeclRefExpr' and src.get('d') in origin and not origin[src['d']] <= origin.get(v['d'], set()):
                        origin.setdefault(v['d'], set()).update(origin[src['d']])
                        changed = True
        for c in f.walk():
            if c.is_call():
                h_ = IP.helper_of(fx, c, r'QueryFilter::')
                if h_ is not None and id(h_) not in seen_f and h_.file.endswith('regex/QueryFilter.cpp') and len(IP.call_sites_of(fx, h_, r'QueryFilter::')) == 1:
                    seen_f.add(id(h_))
                    sd = {}
                    for k_, p_ in enumerate(h_.params):
                        a_ = A.strip_casts(c.args()[k_]) if k_ < len(c.args()) else None
                        if a_ is not None and a_['k'] == 'DeclRefExpr' and a_.get('d') in origin and p_.get('d') is not None:
                            sd[p_['d']] = set(('caller',) + o_ for o_ in origin[a_['d']])
                    work.append((h_, sd))
        for sub in f.walk():
            if sub['k'] != 'ArraySubscriptExpr':
                continue
            b = A.strip_casts(sub['ch'][0])
            idx = A.strip_casts(sub['ch'][1])
            if b['k'] != 'DeclRefExpr' or b.get('d') not in origin or idx['k'] != 'BinaryOperator' or idx.get('op') != '-':
                continue
            L = A.strip_casts(idx['ch'][0])
            if L['k'] != 'DeclRefExpr' or L.get('d') not in origin:
                continue
            n += 1
            ok = bool(origin[b['d']] & origin[L['d']])
            res.ob(rule, f.where(sub), '%s line %s: `%s` is indexed from its own length `%s`' % (f.q.split('::')[-2], sub.get('l'), b.get('n'), L.get('n')), ok, function=f.q,
                   key='%s|%s|%s[%s]' % (rule, f.q, b.get('n'), L.get('n')),
                   message='%s computes an offset into `%s` from `%s`, the length of the OTHER buffer (`%s[%s]`): the comparison looks at the wrong bytes — OP_ENDS_WITH then tests the beginning '
                           'of the field instead of its end, and a filter restored from its archive misdecides the same way' % (f.q, b.get('n'), L.get('n'), b.get('n'), idx.text(30)))
    if n < 2:
        raise AnalysisBroken('%s: only %d length-relative buffer offsets found in the Matches() methods' % (rule, n))


def parsed_name_used_rule(res, fx, rule='PARSED-USED'):
    """`name:index|default` is documented syntax: what ParseFieldName() splits off the token has to reach the filter that is built"""
    res.rule(rule, 'in the expression parser every local that LexerToken::ParseFieldName() fills in (field name, value index, default value) flows into an argument of the CreateSubexpression() call '
                   'that follows it (directly or through locals computed from it): a result that is parsed and then dropped means the un-split token is used instead', floor=4)
    n = 0
    for f in sorted((f for f in fx.funcs.values() if f.full and f.file.endswith('regex/QueryFilter.cpp') and 'LexerToken::' not in f.q), key=lambda f: (f.file, f.line)):
        subs = [c for c in f.walk() if c.is_call() and (c.get('q') or '').endswith('::CreateSubexpression')]
        for c in f.walk():
            if not (c.is_call() and re.search(r'LexerToken::ParseFieldName(Aux)?$', c.get('q') or '')):
                continue
            outs = []
            for a in c.args():
                a0 = A.strip_casts(a)
                if a0['k'] == 'UnaryOperator' and a0.get('op') == '&':
                    a0 = A.strip_casts(a0['ch'][0])
                if a0['k'] == 'DeclRefExpr' and a0.get('d') is not None and not a0.type().startswith('const '):
                    outs.append(a0)
            # the CreateSubexpression call(s) reachable from this parse
            cp = P.pos_of(f, c)
            nxt = [s_ for s_ in subs if cp and P.pos_of(f, s_) and (C.can_reach(f, cp, set([P.pos_of(f, s_)])) or (cp[0] == P.pos_of(f, s_)[0] and cp[1] < P.pos_of(f, s_)[1]))]
            for o in outs:
                n += 1
                ok = bool(nxt)
                for s_ in nxt:
                    need = set(x.get('d') for a in s_.args() for x in a.walk() if x['k'] == 'DeclRefExpr' and x.get('d') is not None)
                    changed = True
                    while changed:
                        changed = False
                        for v in f.walk():
                            rhs = None
                            if v['k'] == 'VarDecl' and v.get('d') in need and v['ch']:
                                rhs = v['ch'][0]
                            elif v['k'] == 'BinaryOperator' and v.get('op') == '=' and A.strip_casts(v['ch'][0]).get('d') in need:
                                rhs = v['ch'][1]
                            if rhs is not None:
                                for x in rhs.walk():
                                    if x['k'] == 'DeclRefExpr' and x.get('d') is not None and x['d'] not in need:
                                        need.add(x['d'])
                                        changed = True
                    ok = ok and o['d'] in need
                res.ob(rule, f.where(c), '%s line %s: `%s` filled in by ParseFieldName() reaches CreateSubexpression()' % (f.q.split('::')[-1], c.get('l'), o.get('n')), ok, function=f.q,
                       key='%s|%s|%s' % (rule, f.q, o.get('n')),
                       message='%s lets LexerToken::ParseFieldName() split the token into `%s` but never hands that result to CreateSubexpression(): the filter is built from the un-split token, so for '
                               '"age:1 == 30" or "age|18 <= 21" it looks for a field literally named "age:1" / "age|18" — the documented `name:index` and `name|default` forms never match the field they name'
                               % (f.q, o.get('n')))
    if n < 4:
        raise AnalysisBroken('%s: only %d ParseFieldName() results found in the expression parser' % (rule, n))


def run(res, tier):
    fx = common.load_units(res, ['regex/QueryFilter.cpp'], fn_regex=r'QueryFilter|Lexer')
    res.functions_analysed = sum(1 for f in fx.funcs.values() if f.full)
    # concrete filter classes = classes created by the factory
    fac = [f for f in fx.funcs.values() if f.full and f.q == 'muscle::MuscleQueryFilterFactory::CreateQueryFilter' and any(len(t['cases']) >= 8 for t in A.dispatch_tables(f))]
    if not fac:
        raise AnalysisBroken('MuscleQueryFilterFactory::CreateQueryFilter(uint32) not found')
    fac = fac[0]
    tab = max(A.dispatch_tables(fac), key=lambda t: len(t['cases']))       # the type-code dispatch: a switch, or the same thing as an if/else-if chain
    sw = tab['node']
    created = {}
    for (vals, stmts) in tab['cases']:
        news = [y for st in stmts for y in st.walk() if y['k'] == 'CXXNewExpr']
        if news:
            for cv in (vals if vals != 'default' else ['default']):
                created[cv] = fac.types[news[0]['at']]
    enum = None
    for e in fx.enums:
        if 'QUERY_FILTER_TYPE_WHATCODE' in e['consts']:
            enum = e['consts']
    if enum is None:
        raise AnalysisBroken('QUERY_FILTER_TYPE_* enum not found')
    # ------------------------------------------------------------------------------------------- R-REC: "arbitrary strings / arbitrary archives for the must-not-crash part"
    from msa.callgraph import CallGraph
    from msa import reach as R
    cg = CallGraph(fx)
    entries = []
    for q in ('muscle::CreateQueryFilterFromExpression', 'muscle::MuscleQueryFilterFactory::CreateQueryFilter', 'muscle::QueryFilterFactory::CreateQueryFilter'):
        entries.extend(f.id for f in fx.fn(q, required=False, full=False))
    if len(entries) < 2:
        raise AnalysisBroken('R-REC: the expression / archive entry points of QueryFilter.cpp were not found')
    R.rec_rule(res, fx, cg, entries, cg.reachable(entries), 'R-REC', anchor_files=[r'^regex/QueryFilter'])
    # ------------------------------------------------------------------------------------------- FACTORY
    res.rule('FACTORY', 'every QUERY_FILTER_TYPE_* enumerator has a case in MuscleQueryFilterFactory::CreateQueryFilter, the class created for code X returns X from TypeCode(), codes are pairwise distinct', floor=19)
    codes = {k: v for k, v in enum.items() if not k.startswith('LAST') and not k.startswith('NUM_') and k.startswith('QUERY_FILTER_TYPE_')}
    if len(set(codes.values())) != len(codes):
        res.ob('FACTORY', 'regex/QueryFilter.h', 'filter type codes are pairwise distinct', False, function='QUERY_FILTER_TYPE', key='FACTORY|codes|distinct', message='two query-filter type codes share a value')
    for name, v in sorted(codes.items(), key=lambda kv: kv[1]):
        cls = created.get(v)
        ok = cls is not None
        how = None
        if ok:
            tcf = None
            for c in class_chain(fx, cls):
                fs = [f for f in fx.funcs.values() if f.full and f.clsfull == c and f.q.endswith('::TypeCode')]
                if fs:
                    tcf = fs[0]
                    break
            rets = [n for n in tcf.walk() if n['k'] == 'ReturnStmt'] if tcf else []
            ok = bool(rets) and all(r['ch'] and r['ch'][0].get('v') == v for r in rets)
            how = '%s::TypeCode() returns %s' % (cls.split('::')[-1], v)
        res.ob('FACTORY', fac.where(), '%s: factory case creates a class whose TypeCode() is that code' % name, ok, how=how, function=fac.q, key='FACTORY|%s' % name,
               message='%s (%s): %s' % (name, v, 'no case in the factory: an archived filter of this kind cannot be restored' if cls is None else
                                        'the factory creates %s, whose TypeCode() does not return this code: SetFromArchive rejects (or mis-types) the archive it is given' % cls))
    # ------------------------------------------------------------------------------------------- ARCHIVE-SYM
    res.rule('ARCHIVE-SYM', 'per filter class with its own SaveToArchive/SetFromArchive: the (field name, kind) sets written and read are equal, conditional adds and gets use the same default, both chain to the same '
                            'base class, and every data member read under Matches is read by SaveToArchive and written by SetFromArchive somewhere in the class chain', floor=25)
    classes = sorted(set(created.values()))
    save_of, load_of = {}, {}
    for f in fx.funcs.values():
        if f.full and f.q.endswith('::SaveToArchive') and f.clsfull:
            save_of[f.clsfull] = f
        if f.full and f.q.endswith('::SetFromArchive') and f.clsfull:
            load_of[f.clsfull] = f
    done = set()
    for cls in classes:
        chain = class_chain(fx, cls)
        for c in chain:
            if c in done or c not in save_of or c not in load_of:
                continue
            done.add(c)
            sf, lf = save_of[c], load_of[c]
            so, lo = archive_ops(sf), archive_ops(lf)
            sset = set((n, k) for (n, k, d, cd, _) in so)
            lset = set((n, k) for (n, k, d, cd, _) in lo)
            short = c.split('::')[-1]
            res.ob('ARCHIVE-SYM', sf.where(), '%s: archive fields written == archive fields read' % short, sset == lset, how=str(sorted(sset)), function=sf.q, key='ARCHIVE-SYM|%s|fields' % c,
                   message='%s: SaveToArchive writes %s that SetFromArchive does not read, SetFromArchive reads %s that SaveToArchive does not write: the restored filter decides differently from the original'
                           % (c, sorted(sset - lset), sorted(lset - sset)))
            # defaults
            sd = {}
            for (n, k, d, cd, _) in so:
                if cd:
                    sd[(n, k)] = d
            bad = []
            for (n, k, d, cd, _) in lo:
                if cd and (n, k) in sd and (sd[(n, k)] or '0') != (d or '0'):
                    bad.append((n, sd[(n, k)], d))
            if sd:
                res.ob('ARCHIVE-SYM', sf.where(), '%s: conditional adds and gets agree on their defaults' % short, not bad, how=str(sd), function=sf.q, key='ARCHIVE-SYM|%s|defaults' % c,
                       message='%s: field(s) %s are omitted from the archive when equal to one default but restored with another' % (c, bad))
            # base chaining
            sb = [x.get('q').rsplit('::', 1)[0] for x in sf.walk() if x.is_call() and (x.get('q') or '').endswith('::SaveToArchive') and x.get('q') != sf.q]
            lb = [x.get('q').rsplit('::', 1)[0] for x in lf.walk() if x.is_call() and (x.get('q') or '').endswith('::SetFromArchive') and x.get('q') != lf.q]
            isroot = c == 'muscle::QueryFilter'
            res.ob('ARCHIVE-SYM', sf.where(), '%s: both directions chain to the same base class' % short, isroot or (len(sb) == 1 and sb == lb), how='%s / %s' % (sb, lb), function=sf.q,
                   key='ARCHIVE-SYM|%s|base' % c, message='%s: SaveToArchive chains to %s, SetFromArchive to %s' % (c, sb, lb))
        # member coverage for the concrete class
        mfun = None
        for c in chain:
            fs = [f for f in fx.funcs.values() if f.full and f.clsfull == c and f.q.endswith('::Matches')]
            if fs:
                mfun = fs[0]
                break
        if mfun is None:
            continue
        M = set()
        seen = set()
        st = [mfun]
        while st:
            g = st.pop()
            if g.id in seen:
                continue
            seen.add(g.id)
            M |= this_fields_read(g)
            for n in g.walk():
                if n.is_call() and n.get('fn') in fx.funcs:
                    h = fx.funcs[n['fn']]
                    if h.full and h.clsfull in chain and not h.q.endswith(('::SaveToArchive', '::SetFromArchive')):
                        on_this = n['k'] != 'CXXMemberCallExpr' or n.receiver() is None or A.strip_casts(n.receiver())['k'] == 'CXXThisExpr'
                        if on_this:
                            st.append(h)
        Sm, Lm = set(), set()
        for c in chain:
            if c in save_of:
                Sm |= this_fields_read(save_of[c])
            if c in load_of:
                Lm |= this_fields_written(load_of[c])
        missing = sorted(m for m in M if (m not in Sm or m not in Lm) and not any((c, m) in FROZEN_UNSAVED for c in chain))
        res.ob('ARCHIVE-SYM', mfun.where(), '%s: members read under Matches %s are all saved and restored' % (cls.split('::')[-1], sorted(M)), not missing, how='saved %s / restored %s' % (sorted(Sm), sorted(Lm)),
               function=mfun.q, key='ARCHIVE-SYM|%s|members' % cls,
               message='%s::Matches depends on member(s) %s that are not %s: a filter restored from its archive decides differently from the original' %
                       (cls, missing, 'saved and restored'))
    # ------------------------------------------------------------------------------------------- CONST / HOSTILE
    res.rule('CONST', 'no const_cast / CastAwayConstFromRef in any Matches implementation', floor=10)
    for f in sorted((f for f in fx.funcs.values() if f.full and f.q.endswith('::Matches') and 'QueryFilter' in f.q), key=lambda f: (f.file, f.line)):
        bad = [n for n in f.walk() if n['k'] == 'CXXConstCastExpr' or (n.is_call() and re.search(r'CastAwayConst', n.get('q') or ''))]
        res.ob('CONST', f.where(), '%s does not cast away const' % f.name.split('::')[-2][:40], not bad, function=f.q, key='CONST|%s' % f.q,
               message='%s removes const at line %s: evaluation can modify the Message it is asked about' % (f.q, bad[0].get('l') if bad else ''))
    res.rule('HOSTILE', 'every CreateQueryFilter result is null-tested before it is used; every switch over an archived operator code has a default', floor=3)
    for f in sorted((f for f in fx.funcs.values() if f.full and 'QueryFilter' in f.q), key=lambda f: (f.file, f.line)):
        for v in f.walk():
            if v['k'] == 'VarDecl' and v['ch'] and any((x.get('q') or '').endswith('::CreateQueryFilter') for x in v['ch'][0].walk() if x.is_call()):
                uses = [x for x in f.walk() if x['k'] == 'DeclRefExpr' and x.get('d') == v['d']]
                bad = []
                for u in uses:
                    par = u.parent
                    # the null test itself:  v() == NULL / !v() / if (v()) — the pointer value is compared, not dereferenced
                    is_test = False
                    a = u
                    while a.parent is not None and a.parent['k'] == 'CXXOperatorCallExpr' and (a.parent.get('q') or '').endswith('::operator()'):
                        a = a.parent
                    pa = a.parent
                    if pa is not None:
                        if pa['k'] == 'BinaryOperator' and pa.get('op') in ('==', '!=', '&&', '||'):
                            is_test = True
                        if pa['k'] == 'UnaryOperator' and pa.get('op') == '!':
                            is_test = True
                        if pa['k'] in ('IfStmt', 'ConditionalOperator') and pa['ch'] and (pa.role('cond') is a or pa['ch'][0] is a):
                            is_test = True
                    if is_test:
                        continue
                    # only dereferencing uses matter: kid()->X(...), *kid(), kid->X
                    deref = False
                    a = u
                    for _ in range(4):
                        a = a.parent
                        if a is None:
                            break
                        if a['k'] == 'MemberExpr' and a.get('arrow'):
                            deref = True
                        if a['k'] == 'UnaryOperator' and a.get('op') == '*':
                            deref = True
                    if not deref:
                        continue
                    # on every path from the definition to the dereference some branch establishes `v is not NULL`
                    paths, complete = C.paths_between(f, P.pos_of(f, v), P.pos_of(f, u))
                    ok = complete and bool(paths)
                    for asg in paths:
                        nonnull = False
                        for (cid, truth) in asg.items():
                            n, pol = P.strip_not(f.nodes[cid], truth)
                            mentions = any(x['k'] == 'DeclRefExpr' and x.get('d') == v['d'] for x in n.walk())
                            if mentions and P.is_pointerish(n) and pol:
                                nonnull = True
                        ok = ok and nonnull
                    if not ok:
                        bad.append(u)
                res.ob('HOSTILE', f.where(v), 'result of CreateQueryFilter in %s is null-tested before use' % f.q.split('::')[-2], not bad, function=f.q, key='HOSTILE|%s|null-test' % f.q,
                       message='%s uses the filter returned by CreateQueryFilter at line %s without a null test: a hostile archive with an unknown filter type makes the server dereference NULL' %
                               (f.q, bad[0].get('l') if bad else ''))
    nsw = 0
    for f in sorted((f for f in fx.funcs.values() if f.full and 'QueryFilter' in f.q), key=lambda f: (f.file, f.line)):
        seen_lines = set()
        for sw in [n for n in f.walk() if n['k'] == 'SwitchStmt']:
            c0 = A.strip_casts(sw.role('cond'))
            if c0.get('n') in ('_op', '_maskOp'):
                if (f.file, sw.get('l')) in seen_lines:
                    continue
                seen_lines.add((f.file, sw.get('l')))
                nsw += 1
                has_def = any(x['k'] == 'DefaultStmt' for x in sw.walk())
                res.ob('HOSTILE', f.where(sw), 'switch over %s in %s has a default' % (c0.get('n'), f.q.split('::')[-1]), has_def, function=f.q, key='HOSTILE|%s|default:%s' % (f.q, c0.get('n')), nontrivial=False,
                       message='a switch over the archived operator code in %s has no default: an out-of-range code from a hostile archive leaves the result undefined' % f.q)
    # ---- a lazily built matcher cache is dropped unconditionally whenever the filter is re-initialised (this is what backs the frozen ARCHIVE-SYM exception for _matcher)
    n_fm = 0
    for f in sorted((f for f in fx.funcs.values() if f.full and f.q.endswith('::SetFromArchive')), key=lambda f: (f.file, f.line)):
        cls_ = f.cls or ''
        has_cache = any(g.full and g.cls == cls_ and g.q.endswith('::FreeMatcher') for g in fx.funcs.values())
        if not has_cache:
            continue
        n_fm += 1
        fm = [c for c in f.walk() if c.is_call() and (c.get('q') or '').endswith('::FreeMatcher')]
        okf = bool(fm) and C.must_pass(f, (f.entry, -1), set(P.pos_of(f, c) for c in fm))[0]
        res.ob('ARCHIVE-SYM', f.where(), '%s drops the cached matcher on every path' % f.q, okf, function=f.q, key='ARCHIVE-SYM|%s|free-matcher' % f.q,
               message='%s can return without FreeMatcher(): the matcher compiled from the previous pattern survives, so the restored filter shows the new pattern (IsEqualTo, Print) but decides with the '
                       'old one' % f.q)
    if n_fm < 1:
        raise AnalysisBroken('ARCHIVE-SYM: no SetFromArchive of a class with a matcher cache found')
    # ---- INDEX-USED: a value filter looks at the item its index names
    res.rule('INDEX-USED', 'in every Matches() of a ValueQueryFilter subclass the field named by GetFieldName() is read with GetIndex() as the item index (never through an overload that implies item 0)', floor=4)
    n_iu = 0
    for f in sorted((f for f in fx.funcs.values() if f.full and f.q.endswith('::Matches') and 'QueryFilter' in f.q), key=lambda f: (f.file, f.line, f.id)):
        for c in f.walk():
            if c['k'] != 'CXXMemberCallExpr' or not re.search(r'^muscle::Message::(Find|Get)\w+$', c.get('q') or '') or not c.args():
                continue
            if not any(x.is_call() and (x.get('q') or '').endswith('::GetFieldName') for x in c.args()[0].walk()):
                continue
            site = (f.file, c.get('l'), c.get('c'))
            n_iu += 1
            ok = any(x.is_call() and (x.get('q') or '').endswith('::GetIndex') for a in c.args()[1:] for x in a.walk()) or any(x['k'] == 'MemberExpr' and x.get('n') == '_index' for a in c.args()[1:] for x in a.walk())
            res.ob('INDEX-USED', f.where(c), '%s reads the field item at GetIndex()' % f.q.split('::')[-2], ok, how=c.text(70), function=f.q, key='INDEX-USED|%s' % f.q.split('<')[0],
                   message='%s reads `%s` without GetIndex(): the filter always looks at item 0, whatever index it was built (or restored) with, and bypasses the missing-item rule' % (f.q, c.text(60)))
    if n_iu < 4:
        raise AnalysisBroken('INDEX-USED: only %d field reads found in the value filters' % n_iu)
    default_substitute_rule(res, fx)
    parsed_name_used_rule(res, fx)
    paired_length_rule(res, fx)
    res.explanation = ('Static decision of the archiving structure of the query filters: the archive operations of every SaveToArchive/SetFromArchive pair are extracted from the resolved AST (field-name literal, '
                       'accessor kind, default argument, base-class chaining) and compared; the data members read under Matches (through same-class helpers) must be read by the save side and written by the load '
                       'side in the class chain; factory, TypeCode() and enum are compared as tables; no Matches removes const; factory results are null-tested. Truth tables and the expression grammar are not decided.')
    res.assumptions = ['Message::CAddX(name, v, d) omits the field iff v == d and GetX(name, d) returns d iff the field is absent']
    res.not_decided = ['that each filter kind accepts exactly the documented Messages (operator semantics, combinator truth tables)', 'expression lexer/parser',
                       'typed FindData reads rely on the shape invariant that items of a fixed-size typed field have sizeof(DataType) (read and dismissed, DESIGN section 4 C14)']
