"""C15  Wildcard patterns match exactly the strings their documented syntax denotes — decided clauses:
META-TABLE (every character the simple-pattern translator or the regex engine treats specially is reported by IsRegexToken, so that EscapeRegexTokens
neutralises it and the uniqueness test sees it) and ESCAPE-INJECTION (the translator does not turn `backslash + c` into a regex *operator* for the
characters where the target dialect defines one)."""
import re
from msa import guards as G
from msa import ip as IP
from msa import pair as P
from msa import ast as A
from msa import cfg as C
from msa.facts import AnalysisBroken
from . import common

SM = 'muscle::StringMatcher'
ERE_META = set('.[]()*+?{}|^$\\')
# characters c for which "\c" is an operator (not an escaped literal) in glibc's POSIX-extended regex
GNU_BACKSLASH_OPERATORS = set('wWsSbB<>`\'123456789')


def char_dispatch(f):
    """the first multi-way dispatch on character constants in f (a switch or an if/else-if chain, msa.ast.dispatch_tables)"""
    ts = [t for t in A.dispatch_tables(f, min_cases=2) if sum(len(v) for (v, _) in t['cases'] if v != 'default') >= 3]
    if not ts:
        raise AnalysisBroken('%s: no dispatch over character constants (switch or if/else-if chain)' % f.q)
    return ts[0]


def escape_flag(f):
    """decl id of the translator's escape-mode flag: the bool local that the dispatch case for the backslash character sets to true (whatever it is called)"""
    try:
        tab = char_dispatch(f)
    except AnalysisBroken:
        return None
    for (vals, stmts) in tab['cases']:
        if vals != 'default' and 92 in vals:
            for st in stmts:
                for x in st.walk():
                    if x['k'] == 'BinaryOperator' and x.get('op') == '=' and x['ch'][1].get('v') == 1 and A.strip_casts(x['ch'][0])['k'] == 'DeclRefExpr' and 'bool' in A.strip_casts(x['ch'][0]).type():
                        return A.strip_casts(x['ch'][0]).get('d')
    return None


def token_sets(fx):
    f = fx.fn1('muscle::IsRegexToken')
    tab = char_dispatch(f)
    always, first = set(), set()
    for (vals, stmts) in tab['cases']:
        if vals == 'default':
            continue
        rets = [x for st in stmts for x in st.walk() if x['k'] == 'ReturnStmt' and x['ch']]
        if not rets:
            continue
        e = A.strip_casts(rets[0]['ch'][0])
        for cv in vals:
            if e.get('v') == 1:
                always.add(chr(cv))
            elif e['k'] == 'DeclRefExpr' and e.get('d') == f.params[1]['d']:
                first.add(chr(cv))
    if len(always) < 8:
        raise AnalysisBroken('IsRegexToken: could not read the token table')
    return f, always, first


def _loop_of(f, node):
    """(header block, body) of the innermost natural loop containing node"""
    p = P.pos_of(f, node)
    best = None
    for (h, body) in C.natural_loops(f):
        if p and p[0] in body and (best is None or len(body) < len(best[1])):
            best = (h, body)
    return best


def _reaches_within_iteration(f, loop, a, b):
    """node a can be followed by node b without going through the loop header in between (same iteration)"""
    pa, pb = P.pos_of(f, a), P.pos_of(f, b)
    if pa is None or pb is None:
        return False
    if pa[0] == pb[0] and pa[1] < pb[1]:
        return True
    (h, body) = loop
    seen, st = set(), [s_ for s_ in f.blocks[pa[0]].succ if s_ is not None and s_ >= 0]
    while st:
        x = st.pop()
        if x in seen or x == h or x not in body:
            continue
        seen.add(x)
        if x == pb[0]:
            return True
        st.extend(s_ for s_ in f.blocks[x].succ if s_ is not None and s_ >= 0)
    return False


def first_position_rule(res, fx):
    """IsRegexToken(c, isFirst): the position class passed for a character is that of the character — nothing that ends "first-ness" (advancing the cursor that is compared with the start,
    clearing the is-first flag) happens between the start of the iteration and the call."""
    res.rule('FIRST-POSITION', 'in every scanner that classifies characters with IsRegexToken(c, first), the second argument still describes the position of c when the call is made: within one '
                               'iteration neither the cursor it compares with the start nor the flag it reads is written before the call', floor=2)
    n = 0
    for f in sorted((g for g in fx.funcs.values() if g.full and g.file.endswith('StringMatcher.cpp')), key=lambda g: g.line):
        for c in f.walk():
            if not (c.is_call() and (c.get('q') or '') == 'muscle::IsRegexToken' and len(c.args()) >= 2):
                continue
            loop = _loop_of(f, c)
            if loop is None:
                continue
            arg = G.local_init(f, c.args()[1])
            state = set(x.get('d') for x in A.walk_through_locals(f, c.args()[1]) if x['k'] == 'DeclRefExpr' and x.get('d') is not None)
            state -= set(p_['d'] for p_ in f.params)          # the start of the string is a parameter (or a local that is never written in the loop: no write will be found)
            if not state:
                continue
            n += 1
            bad = None
            for w in f.walk():
                tgt = None
                if w['k'] == 'UnaryOperator' and w.get('op') in ('post++', 'pre++', 'post--', 'pre--'):
                    tgt = A.strip_casts(w['ch'][0])
                elif w['k'] in ('BinaryOperator', 'CompoundAssignOperator') and w.get('op') in A.ASSIGN_OPS:
                    tgt = A.strip_casts(w['ch'][0])
                if tgt is None or tgt['k'] != 'DeclRefExpr' or tgt.get('d') not in state:
                    continue
                pw = P.pos_of(f, w)
                if pw is None or pw[0] not in loop[1]:
                    continue
                if _reaches_within_iteration(f, loop, w, c):
                    bad = w
            res.ob('FIRST-POSITION', f.where(c), '%s: IsRegexToken(c, %s) is evaluated before the position state is advanced' % (f.q.split('::')[-1], A.strip_casts(c.args()[1]).text(30)), bad is None, function=f.q,
                   key='FIRST-POSITION|%s' % f.q,
                   message='%s writes `%s` (line %s) before it calls IsRegexToken(c, %s) in the same iteration: the "first character" argument no longer describes the character being classified, so '
                           'characters that are special only in first position (~ < `) are never (or always) treated as first — EscapeRegexTokens("~foo") stays "~foo", which matches everything except foo'
                           % (f.q, bad.text(30) if bad is not None else '', bad.get('l') if bad is not None else '', A.strip_casts(c.args()[1]).text(30)))
    if n < 2:
        raise AnalysisBroken('FIRST-POSITION: only %d position-dependent IsRegexToken calls found' % n)


def per_iteration_rule(res, fx):
    """what belongs to one clause / one candidate is not carried over to the next: (a) the bounds of each numeric range added to _ranges are defined in the iteration that adds it;
    (b) a StringTokenizer consumed inside a loop over candidates is constructed inside that loop (it is a single-pass cursor), unless the loop is the tokenizer's own drain loop."""
    res.rule('PER-ITERATION', '(a) every local that feeds `_ranges.AddTail(IDRange(…))` in StringMatcher::SetPattern is (re)defined on every path from the head of the clause loop to that call; '
                              '(b) in the matcher files a StringTokenizer that is consumed in a loop whose continuation does not depend on it is declared inside that loop', floor=2)
    n = 0
    f = fx.fn1(SM + '::SetPattern')
    for g in IP.scope(fx, f, r'^muscle::StringMatcher::|^muscle::\w+$'):
        for c in g.walk():
            if c['k'] == 'CXXMemberCallExpr' and (c.get('q') or '').endswith('::AddTail') and c.receiver() is not None and A.strip_casts(c.receiver()).get('n') == '_ranges':
                loop = _loop_of(g, c)
                if loop is None:
                    continue
                n += 1
                used = set(x.get('d') for a in c.args() for x in a.walk() if x['k'] == 'DeclRefExpr' and x.get('d') is not None and x.get('dk') in (None, 'Var', 'ParmVar'))
                used -= set(p_['d'] for p_ in g.params)
                bad = None
                for d in sorted(used):
                    defs = [v for v in g.walk() if (v['k'] == 'VarDecl' and v.get('d') == d) or
                            (v['k'] in ('BinaryOperator', 'CompoundAssignOperator') and v.get('op') == '=' and A.strip_casts(v['ch'][0]).get('d') == d)]
                    indefs = [v for v in defs if P.pos_of(g, v) and P.pos_of(g, v)[0] in loop[1]]
                    # every path from the loop header to the call passes a definition made in this iteration
                    pts = set(P.pos_of(g, v) for v in indefs)
                    ok = bool(pts) and C.must_pass(g, (loop[0], -1), pts | set(), stop_at_exit=True)[0] if False else None
                    # must_pass is entry->exit; here: header -> call.  Use path search that avoids the definitions.
                    pc = P.pos_of(g, c)
                    avoid = set(pts)
                    reach = C.can_reach(g, (loop[0], -1), set([pc]), avoid_points=avoid) if pc else True
                    if reach:
                        bad = (d, next((x.get('n') for x in g.walk() if x['k'] in ('VarDecl', 'DeclRefExpr') and x.get('d') == d), '?'))
                res.ob('PER-ITERATION', g.where(c), '%s: the bounds of each range clause are defined in the iteration that adds it' % g.q.split('::')[-1], bad is None, function=g.q,
                       key='PER-ITERATION|%s|range-bounds' % g.q,
                       message='%s adds IDRange(…) from `%s`, which can reach the call with the value left by the previous clause: in `<10-20,30->` the open end of the second clause inherits 20 '
                               'instead of "no limit", so the list matches a different set of numbers than its syntax denotes' % (g.q, bad[1] if bad else ''))
    for g in sorted((g for g in fx.funcs.values() if g.full and re.search(r'regex/(StringMatcher|PathMatcher|SegmentedStringMatcher)\.cpp$', g.file)), key=lambda g: (g.file, g.line)):
        for v in g.walk():
            if v['k'] != 'VarDecl' or 'StringTokenizer' not in v.type() or v.type().rstrip().endswith(('*', '&')):
                continue
            uses = [x for x in g.walk() if x['k'] == 'DeclRefExpr' and x.get('d') == v['d']]
            consumes = [x for x in uses if x.parent is not None and x.parent.is_call()]
            if not consumes:
                continue
            n += 1
            bad = None
            vp = P.pos_of(g, v)
            for x in consumes:
                for (h, body) in C.natural_loops(g):
                    px = P.pos_of(g, x)
                    if px is None or px[0] not in body or (vp is not None and vp[0] in body):
                        continue
                    # the loop contains the consumption but not the declaration: fine only if the loop's own condition(s) read the tokenizer (its drain loop)
                    conds = [g.nodes[g.blocks[b].cond] for b in body | set([h]) if g.blocks[b].cond is not None and g.blocks[b].cond in g.nodes and any(s_ not in body for s_ in g.blocks[b].succ if s_ is not None and s_ >= 0)]
                    drives = any(y['k'] == 'DeclRefExpr' and y.get('d') == v['d'] for cnd in conds for y in A.walk_through_locals(g, cnd))
                    if not drives:
                        # a local assigned from the tokenizer inside the loop and tested by an exit condition also counts (while ((t = tok()) != NULL))
                        asg = set(A.strip_casts(a['ch'][0]).get('d') for a in g.walk() if a['k'] == 'BinaryOperator' and a.get('op') == '=' and any(y['k'] == 'DeclRefExpr' and y.get('d') == v['d'] for y in a['ch'][1].walk()))
                        drives = any(y['k'] == 'DeclRefExpr' and y.get('d') in asg for cnd in conds for y in cnd.walk())
                    if not drives:
                        bad = (x, h)
            res.ob('PER-ITERATION', g.where(v), '%s: tokenizer `%s` is not shared between the iterations of a loop over candidates' % (g.q.split('::')[-1], v.get('n')), bad is None, function=g.q,
                   key='PER-ITERATION|%s|tokenizer:%s' % (g.q, v.get('l')),
                   message='%s declares the StringTokenizer `%s` outside a loop that consumes it at line %s and whose continuation does not depend on it: the tokenizer is a single-pass cursor, so every '
                           'iteration after the first sees the remaining (or no) tokens — with two patterns of equal depth, MatchesPath() rejects a path the second pattern matches'
                           % (g.q, v.get('n'), bad[0].get('l') if bad else ''))
    if n < 2:
        raise AnalysisBroken('PER-ITERATION: only %d instances found' % n)


def escape_parity_scanners(res, fx, rule='ESCAPE-PARITY', only=None):
    """the loop-carried escape flags of the scanners in StringMatcher.cpp (all of them, or only the functions whose name matches `only`); returns the number judged"""
    n_ep = 0
    for g in sorted((g for g in fx.funcs.values() if g.full and g.file == 'regex/StringMatcher.cpp' and (only is None or re.search(only, g.q))), key=lambda g: g.line):
        bs = [n for n in g.walk() if n['k'] == 'CharacterLiteral' and n.get('v') == 92]
        if not bs:
            continue
        loops = C.natural_loops(g)
        bools = {v['d']: v for v in g.walk() if v['k'] == 'VarDecl' and v.type().replace('const ', '').strip() in ('bool', '_Bool')}
        # a `bool &` parameter of a helper is a flag its caller carries from one call (one character) to the next
        refps = set()
        for p_ in g.params:
            if p_.get('d') is not None and g.ptype(p_).replace(' ', '') in ('bool&', '_Bool&'):
                bools[p_['d']] = None
                refps.add(p_['d'])
        for d, vd in sorted(bools.items(), key=lambda kv: str(kv[0])):
            asg = [n for n in g.walk() if n['k'] == 'BinaryOperator' and n.get('op') == '=' and A.strip_casts(n['ch'][0]).get('d') == d]
            vdp = g.pos(vd['i']) if vd is not None else None
            # loop-carried: declared outside a loop in which it is assigned and read
            carried = d in refps and bool(asg)
            for (h, body) in loops:
                if vdp is not None and vdp[0] not in body and any(P.pos_of(g, a) and P.pos_of(g, a)[0] in body for a in asg) \
                        and any(u['k'] == 'DeclRefExpr' and u.get('d') == d and P.pos_of(g, u) and P.pos_of(g, u)[0] in body for u in g.walk()):
                    carried = True
            if not carried:
                continue

            def mentions(e, what, depth=0):
                for x in e.walk():
                    if what(x):
                        return True
                    if x['k'] == 'DeclRefExpr' and x.get('d') in bools and bools[x['d']] is not None and depth < 1 and x.get('d') != d:
                        iv = bools[x['d']]
                        if iv['ch'] and mentions(iv['ch'][0], what, depth + 1):
                            return True
                        for a2 in g.walk():
                            if a2['k'] == 'BinaryOperator' and a2.get('op') == '=' and A.strip_casts(a2['ch'][0]).get('d') == x['d'] and mentions(a2['ch'][1], what, depth + 1):
                                return True
                return False
            is_bs = lambda x: x['k'] == 'CharacterLiteral' and x.get('v') == 92
            is_self = lambda x: x['k'] == 'DeclRefExpr' and x.get('d') == d
            esc_flag = any(mentions(a['ch'][1], is_bs) for a in asg) or any(
                a['ch'][1].get('v') in (1, True) and any(is_bs(x) for (c_, t_) in C.guards_of_block(g, P.pos_of(g, a)[0]) for x in g.nodes[c_].walk()) for a in asg) or any(
                a['ch'][1].get('v') in (1, True) and any(lab == 92 for (cond, labels) in C.switch_guards_of_block(g, P.pos_of(g, a)[0]) for lab in labels) for a in asg)
            if not esc_flag:
                continue
            n_ep += 1
            ok = True
            for a in asg:
                rhs = a['ch'][1]
                if rhs.get('v') in (0, False):
                    continue
                guarded = any(A.strip_casts(P.strip_not(g.nodes[c_])[0]).get('d') == d and (t_ != P.strip_not(g.nodes[c_])[1]) for (c_, t_) in C.guards_of_block(g, P.pos_of(g, a)[0]))
                if not (mentions(rhs, is_self) or guarded):
                    ok = False
            fname = vd.get('n') if vd is not None else [p_.get('n') for p_ in g.params if p_.get('d') == d][0]
            res.ob(rule, g.where(vd) if vd is not None else g.where(), '%s: escape flag `%s` is never raised for an escaped character' % (g.q.split('::')[-1], fname), ok, function=g.q, key='%s|%s|%s' % (rule, g.q, fname),
                   message='%s: the flag `%s` is set for every backslash, including one that was itself escaped: in `a\\\\*` the second backslash then "escapes" the live `*`, so the pattern is '
                           'classified as matching a single value although it matches many' % (g.q, fname))
    return n_ep


def run(res, tier):
    from . import sm_state
    fx = common.load_units(res, ['regex/StringMatcher.cpp', 'regex/SegmentedStringMatcher.cpp', 'regex/PathMatcher.cpp'],
                           fn_regex=r'^muscle::(StringMatcher::|SegmentedStringMatcher::|PathMatcher::|IsRegexToken|EscapeRegexTokens|RemoveEscapeChars|HasRegexTokens|CanWildcardStringMatchMultipleValues)')
    res.functions_analysed = sum(1 for f in fx.funcs.values() if f.full)
    tf, always, first = token_sets(fx)
    res.rule('META-TABLE', 'characters that SetPattern gives a special meaning in position 0 or anywhere, and the POSIX-ERE metacharacters it passes to the regex engine unescaped, are all reported by '
                           'IsRegexToken (in the matching position class); CanWildcardStringMatchMultipleValues classifies with the same table', floor=4)
    f = fx.fn1(SM + '::SetPattern')
    # position-0 specials: comparisons  str[0] == 'c'
    pos0 = set()
    # the pattern cursor: a local char pointer initialised from the pattern String (_pattern() / s())
    patvars = set(v['d'] for v in f.walk() if v['k'] == 'VarDecl' and v['ch'] and v.type().replace(' ', '') == 'constchar*'
                  and any(x.get('n') == '_pattern' or x.get('d') == f.params[0]['d'] for x in v['ch'][0].walk()))
    for n in f.walk():
        if n['k'] == 'BinaryOperator' and n.get('op') in ('==', '!='):
            for (l, op_, r) in A.rel_forms(n, True):
                if l['k'] == 'ArraySubscriptExpr' and l['ch'][1].get('v') == 0 and r['k'] == 'CharacterLiteral' and A.strip_casts(l['ch'][0]).get('d') in patvars:
                    pos0.add(chr(r['v']))
    if len(pos0) < 3:
        raise AnalysisBroken('SetPattern: position-0 special cases not found')
    missing = sorted(c for c in pos0 if c not in first and c not in always)
    res.ob('META-TABLE', f.where(), 'position-0 specials %s of SetPattern are tokens for IsRegexToken(c, true)' % sorted(pos0), not missing, function=f.q,
           how='IsRegexToken first-only set %s, always set %s' % (sorted(first), ''.join(sorted(always))), key='META-TABLE|muscle::IsRegexToken|first:%s' % ''.join(missing),
           message='SetPattern treats %s specially in the first position but IsRegexToken(c, true) is false: EscapeRegexTokens leaves it unescaped, so an "escaped" string starting with it is parsed as a '
                   'pattern (e.g. EscapeRegexTokens("`abc") matches "xabcx")' % missing)
    # translator switch
    tab = char_dispatch(f)
    sw = tab['node']
    special, neutral = set(), set()
    for (vals, stmts) in tab['cases']:
        if vals == 'default':
            continue
        # a case that appends a backslash makes the character literal for the regex engine
        adds_bs = any(y['k'] == 'CharacterLiteral' and y.get('v') == 92 for st in stmts for y in st.walk()) and any((y.get('q') or '').endswith('String::operator+=') for st in stmts for y in st.walk() if y.is_call())
        for cv in vals:
            (neutral if adds_bs else special).add(chr(cv))
    # '\\' case sets escapeMode: special
    missing = sorted(c for c in special if c not in always)
    res.ob('META-TABLE', f.where(sw), 'translator specials %s are tokens for IsRegexToken(c, false)' % sorted(special), not missing and bool(special), function=f.q,
           key='META-TABLE|muscle::IsRegexToken|anywhere:%s' % ''.join(missing),
           message='the simple-pattern translator gives %s a special meaning but IsRegexToken does not report it: escaping and the uniqueness test miss it' % missing)
    passed = ERE_META - neutral
    missing = sorted(c for c in passed if c not in always)
    res.ob('META-TABLE', f.where(sw), 'ERE metacharacters passed to regcomp unescaped (%s) are tokens' % ''.join(sorted(passed)), not missing, function=f.q,
           how='neutralised by the translator: %s' % sorted(neutral), key='META-TABLE|muscle::IsRegexToken|engine:%s' % ''.join(missing),
           message='%s reach the regex engine unescaped (REG_EXTENDED) but IsRegexToken does not report them: an escaped string containing them does not match only itself' % missing)
    g0 = fx.fn1('muscle::CanWildcardStringMatchMultipleValues', pred=lambda x: x.file.endswith('.cpp'))
    # the scanning half may have been split off into a file-static helper that gets the same string (msa/ip.py): the token classification is judged where it is, the backtick test anywhere in the scope
    from msa import ip as IP
    sc_ = IP.scope(fx, g0, r'^muscle::\w+$')
    g = next((h_ for h_ in sc_ if any(c.is_call() and (c.get('q') or '') == 'muscle::IsRegexToken' for c in h_.walk())), g0)
    uses = [c for c in g.walk() if c.is_call() and (c.get('q') or '') == 'muscle::IsRegexToken']
    firstarg = False
    for c in uses:
        a = c.args()
        if len(a) >= 2:
            x = A.strip_casts(a[1])
            # "is first" = (cursor == start): the cursor is a local pointer initialised from the string parameter, whatever it is called
            cursors = set(v['d'] for v in g.walk() if v['k'] == 'VarDecl' and v['ch'] and A.strip_casts(v['ch'][0]).get('d') == g.params[0]['d'] and v.type().rstrip().endswith('*'))
            firstarg = any(op_ == '==' and ((l_.get('d') in cursors and r_.get('d') == g.params[0]['d'])) for (l_, op_, r_) in A.rel_forms(G.local_init(g, x), True))
    bt = any(l['k'] == 'ArraySubscriptExpr' and l['ch'][1].get('v') == 0 and r.get('v') == 96
             for h_ in sc_ for n in h_.walk() if n['k'] == 'BinaryOperator' and n.get('op') in ('==', '!=') for (l, op_, r) in A.rel_forms(n, True))
    res.ob('META-TABLE', g.where(), 'CanWildcardStringMatchMultipleValues uses IsRegexToken(c, c is first) and treats a leading backtick as multi-match', bool(uses) and firstarg and bt, function=g.q,
           key='META-TABLE|%s|consistent' % g0.q, message='the can-match-multiple-values test no longer classifies characters with IsRegexToken in the right position class (or ignores the backtick prefix): '
                                                         'the traversal fast path treats a real pattern as a literal')
    e = fx.fn1('muscle::EscapeRegexTokens')
    uses = [c for c in e.walk() if c.is_call() and (c.get('q') or '') == 'muscle::IsRegexToken']
    ok = bool(uses)
    res.ob('META-TABLE', e.where(), 'EscapeRegexTokens prefixes a backslash exactly for IsRegexToken(c, isFirst) characters', ok, function=e.q, key='META-TABLE|%s|uses-table' % e.q,
           message='EscapeRegexTokens no longer consults IsRegexToken')
    # ------------------------------------------------------------------ ESCAPE-INJECTION
    res.rule('ESCAPE-INJECTION', 'in the translator\'s escape branch the backslash is dropped for every character c where "\\c" is an operator of the target regex dialect (letters, digits, ` \' < >)', floor=1)
    # find the escape-mode flag and the branch where it is true
    flag = escape_flag(f)
    covered = set()
    drops = [c for c in f.walk() if c['k'] == 'CXXMemberCallExpr' and re.search(r'String::(TruncateChars|operator--)$', c.get('q') or '')]
    for d in drops:
        if not any(cn.get('d') == flag and t for (cn, t) in G.atoms_at(f, d)):
            continue
        # the disjunction guarding the drop: collect its atoms from the if statement
        ifs = [a for a in d.ancestors() if a['k'] == 'IfStmt']
        if not ifs:
            continue
        cond = ifs[0].role('cond')
        for x in cond.walk():
            if x.is_call() and (x.get('q') or '').endswith('muscleInRange'):
                a = x.args()
                if len(a) == 3 and 'v' in a[1] and 'v' in a[2]:
                    covered |= set(chr(v) for v in range(a[1]['v'], a[2]['v'] + 1))
            if x['k'] == 'BinaryOperator' and x.get('op') == '==':
                for (l_, op_, r_) in A.rel_forms(x, True):
                    if r_['k'] == 'CharacterLiteral':
                        covered.add(chr(r_['v']))
            if x.is_call() and (x.get('q') or '') in ('isalnum', 'isalpha', 'isdigit'):
                covered |= set('0123456789') if 'alnum' in x['q'] or 'digit' in x['q'] else set()
                covered |= set(chr(v) for v in list(range(65, 91)) + list(range(97, 123))) if 'al' in x['q'] else set()
    missing = sorted(GNU_BACKSLASH_OPERATORS - covered)
    res.ob('ESCAPE-INJECTION', f.where(), 'escaped characters with a backslash-operator meaning in GNU regex are emitted without the backslash', not missing, function=f.q,
           how='covered %d characters' % len(covered), key='ESCAPE-INJECTION|%s|%s' % (f.q, ''.join(missing)),
           message='the translator copies "\\c" verbatim for c in %s, which glibc regcomp(REG_EXTENDED) reads as an operator: pattern "\\s" matches " " instead of "s", "\\`abc" matches "abc" although the '
                   'pattern is reported unique' % missing)
    # ---- round-1 additions: escape handling
    res.rule('ESCAPE-PARITY', 'every scanner in StringMatcher.cpp that carries an "previous character was an escape" flag from one character to the next never raises it for a character that was itself '
                              'escaped (a doubled backslash is a literal backslash and does not escape what follows); the translator rewrites characters only outside escape mode', floor=3)
    n_ep = escape_parity_scanners(res, fx)
    if n_ep < 3:
        raise AnalysisBroken('ESCAPE-PARITY: only %d escape-flag scanners found in StringMatcher.cpp' % n_ep)
    g = fx.fn1(SM + '::SetPattern')
    # the translation loop: the character appended to the regex is the pattern character itself unless rewritten OUTSIDE escape mode
    em = [v for v in g.walk() if v['k'] == 'VarDecl' and v.get('d') is not None and v['d'] == escape_flag(g)]
    loads = [v for v in g.walk() if v['k'] == 'VarDecl' and v.type().strip() == 'char' and v['ch'] and any(a['k'] in ('ForStmt', 'WhileStmt') for a in v.ancestors())]
    if not em or not loads:
        raise AnalysisBroken('ESCAPE-PARITY: translation loop of SetPattern not found')
    for v in loads:
        init = A.strip_casts(v['ch'][0])
        pure = init['k'] in ('UnaryOperator', 'ArraySubscriptExpr') and not any(x['k'] == 'ConditionalOperator' for x in init.walk())
        asg = [n for n in g.walk() if n['k'] == 'BinaryOperator' and n.get('op') == '=' and A.strip_casts(n['ch'][0]).get('d') == v['d']]
        okg = all(any(cn_.get('d') == em[0]['d'] and not t_ for (cn_, t_) in G.atoms_at(g, a)) for a in asg)
        res.ob('ESCAPE-PARITY', g.where(v), 'SetPattern: the loop character `%s` is loaded unchanged and rewritten only when escapeMode is false' % v.get('n'), pure and okg, function=g.q,
               key='ESCAPE-PARITY|%s|translate-unescaped-only' % g.q, how='%d rewrite(s), all outside escape mode' % len(asg),
               message='StringMatcher::SetPattern rewrites the pattern character before (or regardless of) the escape test: an escaped comma `\\,` becomes `\\|`, so EscapeRegexTokens("a,b") no '
                       'longer matches "a,b" and matches "a|b" instead')
    # SegmentedStringMatcher: the negation requested by a leading ~ survives
    g = fx.fn1('muscle::SegmentedStringMatcher::SetPattern')
    sn = [c for c in g.walk() if c.is_call() and (c.get('q') or '').endswith('::SetNegate') and c.args() and c.args()[0].get('v') in (1, True)]
    aux = [c for c in g.walk() if c.is_call() and re.search(r'::(SetPatternAux|Clear)$', c.get('q') or '')]
    if not sn or not aux:
        raise AnalysisBroken('ESCAPE-PARITY: SegmentedStringMatcher::SetPattern: SetNegate(true) / SetPatternAux not found')
    bad = any(P.pos_of(g, s_) and P.pos_of(g, a) and ((P.pos_of(g, s_)[0] == P.pos_of(g, a)[0] and P.pos_of(g, s_)[1] < P.pos_of(g, a)[1]) or C.can_reach(g, P.pos_of(g, s_), set([P.pos_of(g, a)]))) for s_ in sn for a in aux)
    res.ob('META-TABLE', g.where(sn[0]), 'SegmentedStringMatcher::SetPattern sets the negate flag after SetPatternAux() (which starts with Clear())', not bad, function=g.q,
           key='META-TABLE|%s|negate-last' % g.q,
           message='SegmentedStringMatcher::SetPattern calls SetNegate(true) before SetPatternAux(), whose Clear() resets the flag: the leading ~ is stripped but the negation is lost, so `~foo/b*` '
                   'matches exactly what `foo/b*` matches')
    # StringMatcher::Match: every result goes through the negation (single exit that applies the NEGATE flag)
    g = fx.fn1(SM + '::Match', pred=lambda h: h.full and h.file.endswith('StringMatcher.cpp') and any(x['k'] == 'MemberExpr' and x.get('n') == '_ranges' for x in h.walk()))
    rets = [r for r in g.walk() if r['k'] == 'ReturnStmt' and r['ch']]
    okn = bool(rets) and all(any(x.get('n') == 'STRINGMATCHER_FLAG_NEGATE' or (x.is_call() and (x.get('q') or '').endswith('::IsNegate')) for x in A.walk_through_locals(g, r)) for r in rets)
    res.ob('META-TABLE', g.where(), 'every return of StringMatcher::Match applies the negate flag', okn, how='%d return(s)' % len(rets), function=g.q, key='META-TABLE|%s|negate-on-every-return' % g.q,
           message='StringMatcher::Match has a return that bypasses the negation: for a subject inside one of the numeric ranges `~<5-10>` matches exactly like `<5-10>`')
    sm_state.regex_valid_rule(res, fx)
    sm_state.ranges_reset_rule(res, fx)
    first_position_rule(res, fx)
    per_iteration_rule(res, fx)
    # ---- NULL-SEGMENT: in SegmentedStringMatcher a NULL sub-matcher stands for "*": MatchAux accepts anything for it, so IsPatternUnique() must answer false for it
    res.rule('NULL-SEGMENT', 'SegmentedStringMatcher::IsPatternUnique: from the edge on which a segment\'s sub-matcher is found NULL (the match-anything segment) no `return true` can be reached', floor=1)
    fu = [g for g in fx.funcs.values() if g.full and g.q == 'muscle::SegmentedStringMatcher::IsPatternUnique']
    if not fu:
        raise AnalysisBroken('NULL-SEGMENT: SegmentedStringMatcher::IsPatternUnique has no analysed body')
    fu = fu[0]
    smd = set(v['d'] for v in fu.walk() if v['k'] == 'VarDecl' and re.search(r'StringMatcher \*$', v.type().strip()))
    rt = set(P.pos_of(fu, r) for r in fu.walk() if r['k'] == 'ReturnStmt' and r['ch'] and A.strip_casts(r['ch'][0]).get('v') == 1 and P.pos_of(fu, r))
    n_ns, bad_ns = 0, None
    for blk in fu.blocks.values():
        if blk.cond is None or blk.cond not in fu.nodes or len(blk.succ) != 2:
            continue
        cn, pol = P.strip_not(fu.nodes[blk.cond])
        if cn['k'] == 'DeclRefExpr' and cn.get('d') in smd:
            n_ns += 1
            null_succ = blk.succ[1 if pol else 0]
            if null_succ is not None and null_succ >= 0 and rt and C.can_reach(fu, (null_succ, -1), rt):
                bad_ns = bad_ns or fu.nodes[blk.cond]
    if n_ns < 1 or not rt:
        raise AnalysisBroken('NULL-SEGMENT: the NULL test of the sub-matcher / the `return true` of IsPatternUnique was not found')
    res.ob('NULL-SEGMENT', fu.where(bad_ns) if bad_ns is not None else fu.where(), 'IsPatternUnique answers false for a pattern with a match-anything (NULL) segment', bad_ns is None, function=fu.q,
           key='NULL-SEGMENT|%s' % fu.q,
           message='SegmentedStringMatcher::IsPatternUnique() can return true although a segment\'s sub-matcher is NULL: a segment that is exactly `*` is stored as NULL and matches anything, so '
                   '`foo/*` reports "unique" while it matches many strings — the "can this pattern match more than one string" test answers no where two different strings match')
    res.explanation = ('Static decision of two table-agreement clauses of C15: the special-character tables are extracted from the resolved AST (comparisons against str[0], the cases of the translation switch and '
                       'whether they add an escaping backslash, the cases of IsRegexToken and what each returns) and compared with each other and with the fixed POSIX-ERE metacharacter set; the escape branch of the '
                       'translator is required to drop the backslash for the characters where GNU regex defines a backslash operator. Matching semantics in general are not decided.')
    res.assumptions = ['target dialect: glibc regcomp with REG_EXTENDED (operators \\w \\W \\s \\S \\b \\B \\< \\> \\` \\\' \\1..\\9)']
    res.not_decided = ['that a pattern matches exactly the documented language (character classes, alternation, negation, numeric ranges)', 'SegmentedStringMatcher / PathMatcher composition']
