"""C15  Wildcard patterns match exactly the strings their documented syntax denotes — decided clauses:
META-TABLE (every character the simple-pattern translator or the regex engine treats specially is reported by IsRegexToken, so that EscapeRegexTokens
neutralises it and the uniqueness test sees it) and ESCAPE-INJECTION (the translator does not turn `backslash + c` into a regex *operator* for the
characters where the target dialect defines one)."""
import re
from msa import guards as G
from msa import pair as P
from msa import ast as A
from msa import cfg as C
from msa.facts import AnalysisBroken
from . import common

SM = 'muscle::StringMatcher'
ERE_META = set('.[]()*+?{}|^$\\')
# characters c for which "\c" is an operator (not an escaped literal) in glibc's POSIX-extended regex
GNU_BACKSLASH_OPERATORS = set('wWsSbB<>`\'123456789')


def char_dispatch(f):
    """the first multi-way dispatch on character constants in f (a switch or an if/else-if chain, msa.ast.dispatch_tables)"""
    ts = [t for t in A.dispatch_tables(f, min_cases=2) if sum(len(v) for (v, _) in t['cases'] if v != 'default') >= 3]
    if not ts:
        raise AnalysisBroken('%s: no dispatch over character constants (switch or if/else-if chain)' % f.q)
    return ts[0]


def escape_flag(f):
    """decl id of the translator's escape-mode flag: the bool local that the dispatch case for the backslash character sets to true (whatever it is called)"""
    try:
        tab = char_dispatch(f)
    except AnalysisBroken:
        return None
    for (vals, stmts) in tab['cases']:
        if vals != 'default' and 92 in vals:
            for st in stmts:
                for x in st.walk():
                    if x['k'] == 'BinaryOperator' and x.get('op') == '=' and x['ch'][1].get('v') == 1 and A.strip_casts(x['ch'][0])['k'] == 'DeclRefExpr' and 'bool' in A.strip_casts(x['ch'][0]).type():
                        return A.strip_casts(x['ch'][0]).get('d')
    return None


def token_sets(fx):
    f = fx.fn1('muscle::IsRegexToken')
    tab = char_dispatch(f)
    always, first = set(), set()
    for (vals, stmts) in tab['cases']:
        if vals == 'default':
            continue
        rets = [x for st in stmts for x in st.walk() if x['k'] == 'ReturnStmt' and x['ch']]
        if not rets:
            continue
        e = A.strip_casts(rets[0]['ch'][0])
        for cv in vals:
            if e.get('v') == 1:
                always.add(chr(cv))
            elif e['k'] == 'DeclRefExpr' and e.get('d') == f.params[1]['d']:
                first.add(chr(cv))
    if len(always) < 8:
        raise AnalysisBroken('IsRegexToken: could not read the token table')
    return f, always, first


def run(res, tier):
    from . import sm_state
    fx = common.load_units(res, ['regex/StringMatcher.cpp', 'regex/SegmentedStringMatcher.cpp'],
                           fn_regex=r'^muscle::(StringMatcher::|SegmentedStringMatcher::|IsRegexToken|EscapeRegexTokens|RemoveEscapeChars|HasRegexTokens|CanWildcardStringMatchMultipleValues)')
    res.functions_analysed = sum(1 for f in fx.funcs.values() if f.full)
    tf, always, first = token_sets(fx)
    res.rule('META-TABLE', 'characters that SetPattern gives a special meaning in position 0 or anywhere, and the POSIX-ERE metacharacters it passes to the regex engine unescaped, are all reported by '
                           'IsRegexToken (in the matching position class); CanWildcardStringMatchMultipleValues classifies with the same table', floor=4)
    f = fx.fn1(SM + '::SetPattern')
    # position-0 specials: comparisons  str[0] == 'c'
    pos0 = set()
    # the pattern cursor: a local char pointer initialised from the pattern String (_pattern() / s())
    patvars = set(v['d'] for v in f.walk() if v['k'] == 'VarDecl' and v['ch'] and v.type().replace(' ', '') == 'constchar*'
                  and any(x.get('n') == '_pattern' or x.get('d') == f.params[0]['d'] for x in v['ch'][0].walk()))
    for n in f.walk():
        if n['k'] == 'BinaryOperator' and n.get('op') in ('==', '!='):
            for (l, op_, r) in A.rel_forms(n, True):
                if l['k'] == 'ArraySubscriptExpr' and l['ch'][1].get('v') == 0 and r['k'] == 'CharacterLiteral' and A.strip_casts(l['ch'][0]).get('d') in patvars:
                    pos0.add(chr(r['v']))
    if len(pos0) < 3:
        raise AnalysisBroken('SetPattern: position-0 special cases not found')
    missing = sorted(c for c in pos0 if c not in first and c not in always)
    res.ob('META-TABLE', f.where(), 'position-0 specials %s of SetPattern are tokens for IsRegexToken(c, true)' % sorted(pos0), not missing, function=f.q,
           how='IsRegexToken first-only set %s, always set %s' % (sorted(first), ''.join(sorted(always))), key='META-TABLE|muscle::IsRegexToken|first:%s' % ''.join(missing),
           message='SetPattern treats %s specially in the first position but IsRegexToken(c, true) is false: EscapeRegexTokens leaves it unescaped, so an "escaped" string starting with it is parsed as a '
                   'pattern (e.g. EscapeRegexTokens("`abc") matches "xabcx")' % missing)
    # translator switch
    tab = char_dispatch(f)
    sw = tab['node']
    special, neutral = set(), set()
    for (vals, stmts) in tab['cases']:
        if vals == 'default':
            continue
        # a case that appends a backslash makes the character literal for the regex engine
        adds_bs = any(y['k'] == 'CharacterLiteral' and y.get('v') == 92 for st in stmts for y in st.walk()) and any((y.get('q') or '').endswith('String::operator+=') for st in stmts for y in st.walk() if y.is_call())
        for cv in vals:
            (neutral if adds_bs else special).add(chr(cv))
    # '\\' case sets escapeMode: special
    missing = sorted(c for c in special if c not in always)
    res.ob('META-TABLE', f.where(sw), 'translator specials %s are tokens for IsRegexToken(c, false)' % sorted(special), not missing and bool(special), function=f.q,
           key='META-TABLE|muscle::IsRegexToken|anywhere:%s' % ''.join(missing),
           message='the simple-pattern translator gives %s a special meaning but IsRegexToken does not report it: escaping and the uniqueness test miss it' % missing)
    passed = ERE_META - neutral
    missing = sorted(c for c in passed if c not in always)
    res.ob('META-TABLE', f.where(sw), 'ERE metacharacters passed to regcomp unescaped (%s) are tokens' % ''.join(sorted(passed)), not missing, function=f.q,
           how='neutralised by the translator: %s' % sorted(neutral), key='META-TABLE|muscle::IsRegexToken|engine:%s' % ''.join(missing),
           message='%s reach the regex engine unescaped (REG_EXTENDED) but IsRegexToken does not report them: an escaped string containing them does not match only itself' % missing)
    g = fx.fn1('muscle::CanWildcardStringMatchMultipleValues', pred=lambda x: x.file.endswith('.cpp'))
    uses = [c for c in g.walk() if c.is_call() and (c.get('q') or '') == 'muscle::IsRegexToken']
    firstarg = False
    for c in uses:
        a = c.args()
        if len(a) >= 2:
            x = A.strip_casts(a[1])
            # "is first" = (cursor == start): the cursor is a local pointer initialised from the string parameter, whatever it is called
            cursors = set(v['d'] for v in g.walk() if v['k'] == 'VarDecl' and v['ch'] and A.strip_casts(v['ch'][0]).get('d') == g.params[0]['d'] and v.type().rstrip().endswith('*'))
            firstarg = any(op_ == '==' and ((l_.get('d') in cursors and r_.get('d') == g.params[0]['d'])) for (l_, op_, r_) in A.rel_forms(G.local_init(g, x), True))
    bt = any(l['k'] == 'ArraySubscriptExpr' and l['ch'][1].get('v') == 0 and r.get('v') == 96
             for n in g.walk() if n['k'] == 'BinaryOperator' and n.get('op') in ('==', '!=') for (l, op_, r) in A.rel_forms(n, True))
    res.ob('META-TABLE', g.where(), 'CanWildcardStringMatchMultipleValues uses IsRegexToken(c, c is first) and treats a leading backtick as multi-match', bool(uses) and firstarg and bt, function=g.q,
           key='META-TABLE|%s|consistent' % g.q, message='the can-match-multiple-values test no longer classifies characters with IsRegexToken in the right position class (or ignores the backtick prefix): '
                                                         'the traversal fast path treats a real pattern as a literal')
    e = fx.fn1('muscle::EscapeRegexTokens')
    uses = [c for c in e.walk() if c.is_call() and (c.get('q') or '') == 'muscle::IsRegexToken']
    ok = bool(uses)
    res.ob('META-TABLE', e.where(), 'EscapeRegexTokens prefixes a backslash exactly for IsRegexToken(c, isFirst) characters', ok, function=e.q, key='META-TABLE|%s|uses-table' % e.q,
           message='EscapeRegexTokens no longer consults IsRegexToken')
    # ------------------------------------------------------------------ ESCAPE-INJECTION
    res.rule('ESCAPE-INJECTION', 'in the translator\'s escape branch the backslash is dropped for every character c where "\\c" is an operator of the target regex dialect (letters, digits, ` \' < >)', floor=1)
    # find the escape-mode flag and the branch where it is true
    flag = escape_flag(f)
    covered = set()
    drops = [c for c in f.walk() if c['k'] == 'CXXMemberCallExpr' and re.search(r'String::(TruncateChars|operator--)$', c.get('q') or '')]
    for d in drops:
        if not any(cn.get('d') == flag and t for (cn, t) in G.atoms_at(f, d)):
            continue
        # the disjunction guarding the drop: collect its atoms from the if statement
        ifs = [a for a in d.ancestors() if a['k'] == 'IfStmt']
        if not ifs:
            continue
        cond = ifs[0].role('cond')
        for x in cond.walk():
            if x.is_call() and (x.get('q') or '').endswith('muscleInRange'):
                a = x.args()
                if len(a) == 3 and 'v' in a[1] and 'v' in a[2]:
                    covered |= set(chr(v) for v in range(a[1]['v'], a[2]['v'] + 1))
            if x['k'] == 'BinaryOperator' and x.get('op') == '==':
                for (l_, op_, r_) in A.rel_forms(x, True):
                    if r_['k'] == 'CharacterLiteral':
                        covered.add(chr(r_['v']))
            if x.is_call() and (x.get('q') or '') in ('isalnum', 'isalpha', 'isdigit'):
                covered |= set('0123456789') if 'alnum' in x['q'] or 'digit' in x['q'] else set()
                covered |= set(chr(v) for v in list(range(65, 91)) + list(range(97, 123))) if 'al' in x['q'] else set()
    missing = sorted(GNU_BACKSLASH_OPERATORS - covered)
    res.ob('ESCAPE-INJECTION', f.where(), 'escaped characters with a backslash-operator meaning in GNU regex are emitted without the backslash', not missing, function=f.q,
           how='covered %d characters' % len(covered), key='ESCAPE-INJECTION|%s|%s' % (f.q, ''.join(missing)),
           message='the translator copies "\\c" verbatim for c in %s, which glibc regcomp(REG_EXTENDED) reads as an operator: pattern "\\s" matches " " instead of "s", "\\`abc" matches "abc" although the '
                   'pattern is reported unique' % missing)
    # ---- round-1 additions: escape handling
    res.rule('ESCAPE-PARITY', 'every scanner in StringMatcher.cpp that carries an "previous character was an escape" flag from one character to the next never raises it for a character that was itself '
                              'escaped (a doubled backslash is a literal backslash and does not escape what follows); the translator rewrites characters only outside escape mode', floor=3)
    n_ep = 0
    for g in sorted((g for g in fx.funcs.values() if g.full and g.file == 'regex/StringMatcher.cpp'), key=lambda g: g.line):
        bs = [n for n in g.walk() if n['k'] == 'CharacterLiteral' and n.get('v') == 92]
        if not bs:
            continue
        loops = C.natural_loops(g)
        bools = {v['d']: v for v in g.walk() if v['k'] == 'VarDecl' and v.type().replace('const ', '').strip() in ('bool', '_Bool')}
        for d, vd in sorted(bools.items()):
            asg = [n for n in g.walk() if n['k'] == 'BinaryOperator' and n.get('op') == '=' and A.strip_casts(n['ch'][0]).get('d') == d]
            vdp = g.pos(vd['i'])
            # loop-carried: declared outside a loop in which it is assigned and read
            carried = False
            for (h, body) in loops:
                if vdp is not None and vdp[0] not in body and any(P.pos_of(g, a) and P.pos_of(g, a)[0] in body for a in asg) \
                        and any(u['k'] == 'DeclRefExpr' and u.get('d') == d and P.pos_of(g, u) and P.pos_of(g, u)[0] in body for u in g.walk()):
                    carried = True
            if not carried:
                continue

            def mentions(e, what, depth=0):
                for x in e.walk():
                    if what(x):
                        return True
                    if x['k'] == 'DeclRefExpr' and x.get('d') in bools and depth < 1 and x.get('d') != d:
                        iv = bools[x['d']]
                        if iv['ch'] and mentions(iv['ch'][0], what, depth + 1):
                            return True
                        for a2 in g.walk():
                            if a2['k'] == 'BinaryOperator' and a2.get('op') == '=' and A.strip_casts(a2['ch'][0]).get('d') == x['d'] and mentions(a2['ch'][1], what, depth + 1):
                                return True
                return False
            is_bs = lambda x: x['k'] == 'CharacterLiteral' and x.get('v') == 92
            is_self = lambda x: x['k'] == 'DeclRefExpr' and x.get('d') == d
            esc_flag = any(mentions(a['ch'][1], is_bs) for a in asg) or any(
                a['ch'][1].get('v') in (1, True) and any(is_bs(x) for (c_, t_) in C.guards_of_block(g, P.pos_of(g, a)[0]) for x in g.nodes[c_].walk()) for a in asg) or any(
                a['ch'][1].get('v') in (1, True) and any(lab == 92 for (cond, labels) in C.switch_guards_of_block(g, P.pos_of(g, a)[0]) for lab in labels) for a in asg)
            if not esc_flag:
                continue
            n_ep += 1
            ok = True
            for a in asg:
                rhs = a['ch'][1]
                if rhs.get('v') in (0, False):
                    continue
                guarded = any(A.strip_casts(P.strip_not(g.nodes[c_])[0]).get('d') == d and (t_ != P.strip_not(g.nodes[c_])[1]) for (c_, t_) in C.guards_of_block(g, P.pos_of(g, a)[0]))
                if not (mentions(rhs, is_self) or guarded):
                    ok = False
            res.ob('ESCAPE-PARITY', g.where(vd), '%s: escape flag `%s` is never raised for an escaped character' % (g.q.split('::')[-1], vd.get('n')), ok, function=g.q, key='ESCAPE-PARITY|%s|%s' % (g.q, vd.get('n')),
                   message='%s: the flag `%s` is set for every backslash, including one that was itself escaped: in `a\\\\*` the second backslash then "escapes" the live `*`, so the pattern is '
                           'classified as matching a single value although it matches many' % (g.q, vd.get('n')))
    if n_ep < 3:
        raise AnalysisBroken('ESCAPE-PARITY: only %d escape-flag scanners found in StringMatcher.cpp' % n_ep)
    g = fx.fn1(SM + '::SetPattern')
    # the translation loop: the character appended to the regex is the pattern character itself unless rewritten OUTSIDE escape mode
    em = [v for v in g.walk() if v['k'] == 'VarDecl' and v.get('d') is not None and v['d'] == escape_flag(g)]
    loads = [v for v in g.walk() if v['k'] == 'VarDecl' and v.type().strip() == 'char' and v['ch'] and any(a['k'] in ('ForStmt', 'WhileStmt') for a in v.ancestors())]
    if not em or not loads:
        raise AnalysisBroken('ESCAPE-PARITY: translation loop of SetPattern not found')
    for v in loads:
        init = A.strip_casts(v['ch'][0])
        pure = init['k'] in ('UnaryOperator', 'ArraySubscriptExpr') and not any(x['k'] == 'ConditionalOperator' for x in init.walk())
        asg = [n for n in g.walk() if n['k'] == 'BinaryOperator' and n.get('op') == '=' and A.strip_casts(n['ch'][0]).get('d') == v['d']]
        okg = all(any(cn_.get('d') == em[0]['d'] and not t_ for (cn_, t_) in G.atoms_at(g, a)) for a in asg)
        res.ob('ESCAPE-PARITY', g.where(v), 'SetPattern: the loop character `%s` is loaded unchanged and rewritten only when escapeMode is false' % v.get('n'), pure and okg, function=g.q,
               key='ESCAPE-PARITY|%s|translate-unescaped-only' % g.q, how='%d rewrite(s), all outside escape mode' % len(asg),
               message='StringMatcher::SetPattern rewrites the pattern character before (or regardless of) the escape test: an escaped comma `\\,` becomes `\\|`, so EscapeRegexTokens("a,b") no '
                       'longer matches "a,b" and matches "a|b" instead')
    # SegmentedStringMatcher: the negation requested by a leading ~ survives
    g = fx.fn1('muscle::SegmentedStringMatcher::SetPattern')
    sn = [c for c in g.walk() if c.is_call() and (c.get('q') or '').endswith('::SetNegate') and c.args() and c.args()[0].get('v') in (1, True)]
    aux = [c for c in g.walk() if c.is_call() and re.search(r'::(SetPatternAux|Clear)$', c.get('q') or '')]
    if not sn or not aux:
        raise AnalysisBroken('ESCAPE-PARITY: SegmentedStringMatcher::SetPattern: SetNegate(true) / SetPatternAux not found')
    bad = any(P.pos_of(g, s_) and P.pos_of(g, a) and ((P.pos_of(g, s_)[0] == P.pos_of(g, a)[0] and P.pos_of(g, s_)[1] < P.pos_of(g, a)[1]) or C.can_reach(g, P.pos_of(g, s_), set([P.pos_of(g, a)]))) for s_ in sn for a in aux)
    res.ob('META-TABLE', g.where(sn[0]), 'SegmentedStringMatcher::SetPattern sets the negate flag after SetPatternAux() (which starts with Clear())', not bad, function=g.q,
           key='META-TABLE|%s|negate-last' % g.q,
           message='SegmentedStringMatcher::SetPattern calls SetNegate(true) before SetPatternAux(), whose Clear() resets the flag: the leading ~ is stripped but the negation is lost, so `~foo/b*` '
                   'matches exactly what `foo/b*` matches')
    # StringMatcher::Match: every result goes through the negation (single exit that applies the NEGATE flag)
    g = fx.fn1(SM + '::Match', pred=lambda h: h.full and h.file.endswith('StringMatcher.cpp') and any(x['k'] == 'MemberExpr' and x.get('n') == '_ranges' for x in h.walk()))
    rets = [r for r in g.walk() if r['k'] == 'ReturnStmt' and r['ch']]
    okn = bool(rets) and all(any(x.get('n') == 'STRINGMATCHER_FLAG_NEGATE' or (x.is_call() and (x.get('q') or '').endswith('::IsNegate')) for x in A.walk_through_locals(g, r)) for r in rets)
    res.ob('META-TABLE', g.where(), 'every return of StringMatcher::Match applies the negate flag', okn, how='%d return(s)' % len(rets), function=g.q, key='META-TABLE|%s|negate-on-every-return' % g.q,
           message='StringMatcher::Match has a return that bypasses the negation: for a subject inside one of the numeric ranges `~<5-10>` matches exactly like `<5-10>`')
    sm_state.regex_valid_rule(res, fx)
    sm_state.ranges_reset_rule(res, fx)
    res.explanation = ('Static decision of two table-agreement clauses of C15: the special-character tables are extracted from the resolved AST (comparisons against str[0], the cases of the translation switch and '
                       'whether they add an escaping backslash, the cases of IsRegexToken and what each returns) and compared with each other and with the fixed POSIX-ERE metacharacter set; the escape branch of the '
                       'translator is required to drop the backslash for the characters where GNU regex defines a backslash operator. Matching semantics in general are not decided.')
    res.assumptions = ['target dialect: glibc regcomp with REG_EXTENDED (operators \\w \\W \\s \\S \\b \\B \\< \\> \\` \\\' \\1..\\9)']
    res.not_decided = ['that a pattern matches exactly the documented language (character classes, alternation, negation, numeric ranges)', 'SegmentedStringMatcher / PathMatcher composition']
