"""Rules on reflector code shared by several properties (StorageReflectSession.cpp, ReflectServer.cpp, PathMatcher.cpp are anchored by C04, C05, C06, C07)."""
import re
from msa import ast as A
from msa import guards as G
from msa import cfg as C
from msa import pair as P
from msa.taint import P_canon
from msa.facts import AnalysisBroken

SRS = 'muscle::StorageReflectSession'


def ancestor_deref_rule(res, fx, rule):
    """DataNode::GetAncestorNode(depth, fallback) returns the fallback (default NULL) when the node is shallower than `depth`: a dereference of the result needs a non-NULL fallback or a test"""
    res.rule(rule, 'every dereference of DataNode::GetAncestorNode(depth, fallback) passes a non-NULL fallback or tests the result first (a traversal callback can be called on a host node or the root, '
                   'which have no session ancestor)', floor=3)
    n = 0
    for f in sorted((f for f in fx.funcs.values() if f.full and (f.cls or '').startswith(SRS)), key=lambda f: (f.file, f.line)):
        for c in f.walk():
            if c['k'] != 'CXXMemberCallExpr' or (c.get('q') or '') != 'muscle::DataNode::GetAncestorNode':
                continue
            args = c.args()
            fb_ok = len(args) >= 2 and args[1]['k'] != 'CXXDefaultArgExpr' and A.strip_casts(args[1]).get('v') != 0 and A.strip_casts(args[1])['k'] not in ('GNUNullExpr', 'CXXNullPtrLiteralExpr')
            par = c.parent
            while par is not None and par['k'] in ('ImplicitCastExpr', 'ParenExpr'):
                par = par.parent
            direct = par is not None and par['k'] in ('MemberExpr', 'CXXMemberCallExpr') and par['k'] != 'VarDecl'
            held = None
            if par is not None and par['k'] == 'VarDecl':
                held = par
            if not direct and held is None:
                continue
            n += 1
            ok = fb_ok
            how = 'fallback `%s`' % args[1].text(20) if fb_ok else None
            if not ok and held is not None:
                # held in a local: every dereference of the local must be on a non-NULL edge
                ok = True
                for u in f.walk():
                    if u['k'] == 'MemberExpr' and u['ch'] and A.strip_casts(u['ch'][0]).get('d') == held['d'] and u.get('arrow', True):
                        up = P.pos_of(f, u)
                        tested = False
                        for (g, t) in (C.guards_of_block(f, up[0]) if up else []):
                            gn, pol = P.strip_not(f.nodes[g])
                            if A.strip_casts(gn).get('d') == held['d'] and t == pol:
                                tested = True
                        if not tested:
                            ok = False
                how = 'result held in `%s`, dereferenced only where it is non-NULL' % held.get('n') if ok else None
            res.ob(rule, f.where(c), '%s: GetAncestorNode(%s) is dereferenced with a non-NULL fallback or after a test' % (f.q.split('::')[-1], args[0].text(25) if args else ''), ok, how=how, function=f.q,
                   key='%s|%s|ancestor-deref' % (rule, f.q),
                   message='%s dereferences GetAncestorNode(%s) without a fallback node and without a test: for a matched node above that depth (a host node or the root, e.g. keys "/*") the result is NULL '
                           'and the server crashes' % (f.q, args[0].text(30) if args else ''))
    if n < 3:
        raise AnalysisBroken('%s: only %d GetAncestorNode dereferences found' % (rule, n))


def raw_from_ref_rule(res, fx, rule):
    """a raw pointer taken out of a Ref that lives inside a container entry dies when the container replaces that Ref"""
    res.rule(rule, 'in the SETPARAMETERS handler a raw QueryFilter pointer taken from a subscription entry (e->GetFilter()()) is not used after a call that can replace the entry\'s filter '
                   '(a non-const PathMatcher method on _subscriptions)', floor=1)
    f = fx.fn1(SRS + '::MessageReceivedFromGateway')
    n = 0
    for v in f.walk():
        if v['k'] != 'VarDecl' or not v['ch'] or not v.type().rstrip().endswith('*'):
            continue
        init = A.strip_casts(v['ch'][0])
        # X()  i.e. operator() of a Ref returned by a getter on an entry of _subscriptions
        if not (init['k'] == 'CXXOperatorCallExpr' and (init.get('q') or '').endswith('::operator()') and any(x.is_call() and (x.get('q') or '').endswith('PathMatcherEntry::GetFilter') for x in init.walk())):
            continue
        n += 1
        muts = [c for c in f.walk() if c['k'] == 'CXXMemberCallExpr' and c.receiver() is not None and A.strip_casts(c.receiver()).get('n') == '_subscriptions' and not c.get('cm')
                and re.search(r'::(SetFilterForEntry|RemovePathString|PutPathString|Clear|PutPathsFromMessage|RemovePathsFromMessage)$', c.get('q') or '')]
        bad = None
        vp = P.pos_of(f, v)
        for m in muts:
            mp = P.pos_of(f, m)
            if not (vp and mp and ((vp[0] == mp[0] and vp[1] < mp[1]) or C.can_reach(f, vp, set([mp])))):
                continue
            for u in f.walk():
                if u['k'] == 'DeclRefExpr' and u.get('d') == v['d']:
                    up = P.pos_of(f, u)
                    if up and ((mp[0] == up[0] and mp[1] < up[1]) or (mp[0] != up[0] and C.can_reach(f, mp, set([up]), avoid_points=set([vp])))):
                        # a mere NULL-ness test of the stale pointer is harmless; handing it on or dereferencing it is not
                        par = u.parent
                        while par is not None and par['k'] in ('ImplicitCastExpr', 'ParenExpr', 'CStyleCastExpr'):
                            par = par.parent
                        if par is not None and par['k'] == 'BinaryOperator' and par.get('op') in ('==', '!='):
                            continue
                        bad = (m, u)
        res.ob(rule, f.where(v), 'raw filter pointer `%s` is not used after the entry\'s filter can have been replaced' % v.get('n'), bad is None, function=f.q, key='%s|%s|%s' % (rule, f.q, v.get('n')),
               message='%s: `%s` (line %s) points at the filter owned by the subscription entry; %s (line %s) can release that filter, and the pointer is used afterwards (line %s): the old filter\'s '
                       'Matches() runs on freed memory when a client re-subscribes with a different filter' % (f.q, v.get('n'), v.get('l'), (bad[0].get('q') or '').split('::')[-1] if bad else '', bad[0].get('l') if bad else '', bad[1].get('l') if bad else ''))
    if n < 1:
        raise AnalysisBroken('%s: the raw filter pointer of the SETPARAMETERS handler was not found' % rule)


def setfilter_order_rule(res, fx, rule):
    res.rule(rule, 'PathMatcher::SetFilterForEntry compares "new filter present" with "old filter present" (to keep _numFilters) before it overwrites the entry\'s filter', floor=1)
    f = fx.fn1('muscle::PathMatcher::SetFilterForEntry')
    sets = [c for c in f.walk() if c.is_call() and (c.get('q') or '').endswith('PathMatcherEntry::SetFilter')]
    gets = [c for c in f.walk() if c.is_call() and (c.get('q') or '').endswith('PathMatcherEntry::GetFilter')]
    upd = [n for n in f.walk() if n['k'] in ('CompoundAssignOperator', 'UnaryOperator', 'BinaryOperator') and n.get('op') in ('+=', '-=', '=', 'post++', 'post--', 'pre++', 'pre--')
           and A.strip_casts(n['ch'][0]).get('n') == '_numFilters']
    if not sets or not gets or not upd:
        raise AnalysisBroken('%s: SetFilterForEntry: SetFilter/GetFilter/_numFilters update not found' % rule)
    bad = any(P.pos_of(f, s_) and P.pos_of(f, g) and ((P.pos_of(f, s_)[0] == P.pos_of(f, g)[0] and P.pos_of(f, s_)[1] < P.pos_of(f, g)[1]) or C.can_reach(f, P.pos_of(f, s_), set([P.pos_of(f, g)]))) for s_ in sets for g in gets)
    res.ob(rule, f.where(), 'the old filter is read before SetFilter() overwrites it', not bad, function=f.q, key='%s|%s|read-before-overwrite' % (rule, f.q),
           message='PathMatcher::SetFilterForEntry reads the entry\'s filter after overwriting it, so "old present" always equals "new present" and _numFilters is never adjusted: with the count stuck at 0 '
                   'NodeChanged() skips all filter evaluation and a filtered subscription receives every node that matches its path')


def subscribe_traversal_nofilter_rule(res, fx, rule):
    res.rule(rule, 'every traversal that sets or removes subscription marks (DoSubscribeRefCallback) ignores filters (useFilters = false): marks are placed per path, independent of node content', floor=3)
    n = 0
    for f in sorted((f for f in fx.funcs.values() if f.full and (f.cls or '') == SRS), key=lambda f: f.line):
        for t in P.calls(f, r'NodePathMatcher::DoTraversal$'):
            if len(t.args()) < 4 or not any(x.get('n') == 'DoSubscribeRefCallbackFunc' for x in t.args()[0].walk()):
                continue
            n += 1
            v = A.strip_casts(t.args()[3]).get('v')
            res.ob(rule, f.where(t), '%s: marks traversal passes useFilters=false' % f.q.split('::')[-1], v in (0, False), function=f.q, key='%s|%s|marks-nofilter' % (rule, f.q),
                   message='%s walks the subscription marks with useFilters=%s: nodes whose payload fails the session\'s filter are skipped, so their marks are not removed (they outlive the session) or '
                           'not set' % (f.q, t.args()[3].text(10)))
    if n < 3:
        raise AnalysisBroken('%s: %d marks traversals found' % (rule, n))


def lameduck_same_end_rule(res, fx, rule):
    res.rule(rule, 'ReflectServer::ClearLameDucks removes from _lameDuckSessions the same end it has just processed', floor=1)
    f = fx.fn1('muscle::ReflectServer::ClearLameDucks')
    acc = [c for c in f.walk() if c['k'] == 'CXXMemberCallExpr' and c.receiver() is not None and A.strip_casts(c.receiver()).get('n') == '_lameDuckSessions']
    heads = set((c.get('q') or '').split('::')[-1] for c in acc)
    first = heads & set(['Head', 'HeadPointer', 'GetFirst', 'RemoveHead', 'RemoveFirst', 'GetFirstKey', 'GetFirstValue'])
    last = heads & set(['Tail', 'TailPointer', 'GetLast', 'RemoveTail', 'RemoveLast', 'GetLastKey', 'GetLastValue'])
    rm = [m for m in heads if m.startswith('Remove')]
    if not rm or not (first or last):
        raise AnalysisBroken('%s: ClearLameDucks: accessors of _lameDuckSessions not found (%s)' % (rule, sorted(heads)))
    ok = not (first and last)
    res.ob(rule, f.where(), 'processed end and removed end agree', ok, how=str(sorted(heads)), function=f.q, key='%s|%s|same-end' % (rule, f.q),
           message='ClearLameDucks processes one end of _lameDuckSessions (%s) and removes the other (%s): when two sessions end in the same pass one of them is dropped without '
                   'AboutToDetachFromServer(); its subtree and subscription marks stay forever' % (sorted(first), sorted(last)))


def cow_exact_rule(res, fx, rule):
    """copy-on-write of the shared subscriber tables: modify in place only when the caller and the cache are the ONLY holders"""
    gs = [g for g in fx.funcs.values() if g.full and g.q.endswith('ImmutableHashtablePool::GetRefStatus')]
    if not gs:
        raise AnalysisBroken('%s: ImmutableHashtablePool::GetRefStatus not found (instantiation for the subscriber tables)' % rule)
    g = gs[0]
    rets = [r for r in g.walk() if r['k'] == 'ReturnStmt' and r['ch'] and any(x.get('n') == 'REF_STATUS_INLRUCACHE' for x in r['ch'][0].walk())]
    ok, how = bool(rets), None
    for r in rets:
        okr = False
        # a `c ? INLRUCACHE : PUBLIC` return is judged at the arm that names the status
        sites = [x for x in r['ch'][0].walk() if x.get('n') == 'REF_STATUS_INLRUCACHE']
        for site in sites:
            for (cn, t) in G.atoms_at(g, site):
                for (l_, op_, r_) in A.rel_forms(cn, t):
                    if op_ == '==' and r_.get('v') == 2 and any(x.is_call() and (x.get('q') or '').endswith('::GetRefCount') for x in l_.walk()):
                        okr, how = True, A.strip_casts(cn).text(40)
        ok = ok and okr
    res.ob(rule, g.where(), 'a shared subscriber table is classified "only the caller and the cache hold it" (so it may be modified in place) only under GetRefCount() == 2', ok, how=how, function=g.q,
           key='%s|%s|cow-exact' % (rule, g.q.split('<')[0]),
           message='ImmutableHashtablePool::GetRefStatus reports REF_STATUS_INLRUCACHE without an exact GetRefCount() == 2 test: a table that other DataNodes still share is modified in place, so one '
                   'session\'s subscription mark appears on (or disappears from) nodes it never subscribed to, and can outlive the session')


def cache_hit_compares_content_rule(res, fx, rule):
    """the LRU cache of subscriber tables is keyed by a 64-bit sum of hash codes: a hit under that key is only a candidate; it may be handed out only after its CONTENT was compared"""
    gs = [g for g in fx.funcs.values() if g.full and g.q.endswith('ImmutableHashtablePool::GetWithAux')]
    if not gs:
        raise AnalysisBroken('%s: ImmutableHashtablePool::GetWithAux not found' % rule)
    g = gs[0]
    gets = [c for c in g.walk() if c['k'] == 'CXXMemberCallExpr' and re.search(r'::(Get|GetAndMoveToFront)$', c.get('q') or '') and c.receiver() is not None and A.strip_casts(c.receiver()).get('n') == '_lruCache']
    if not gets:
        raise AnalysisBroken('%s: no _lruCache lookup in GetWithAux' % rule)
    cmpc = [c for c in g.walk() if c.is_call() and re.search(r'::(WouldBeEqualToAfterPutOrRemove|IsEqualTo|operator==)$', c.get('q') or '') and 'Hashtable' in (c.get('q') or '')]
    # every return that hands out a value derived from the cache lookup is dominated by a successful content comparison
    holders = set()
    for v in g.walk():
        if v['k'] == 'VarDecl' and v['ch'] and any(x in gets for x in v['ch'][0].walk()):
            holders.add(v['d'])
    bad = None
    for r in (x for x in g.walk() if x['k'] == 'ReturnStmt' and x['ch']):
        if not any(x['k'] == 'DeclRefExpr' and x.get('d') in holders for x in A.walk_through_locals(g, r['ch'][0])):
            continue
        okc = any(a.is_call() and a in cmpc and t for (a, t) in G.atoms_at(g, r)) or any(any(x in cmpc for x in a.walk()) and t for (a, t) in G.atoms_at(g, r))
        if not okc:
            bad = r
    res.ob(rule, g.where(bad) if bad is not None else g.where(), 'GetWithAux hands out a table found in the LRU cache only after comparing its contents with the table wanted', bad is None and bool(cmpc), function=g.q,
           key='%s|%s|cache-hit-compares-content' % (rule, g.q.split('<')[0]),
           message='ImmutableHashtablePool::GetWithAux returns the table cached under the same 64-bit hash sum without comparing contents: two different subscriber sets whose sums collide '
                   '(e.g. {35,272} and {23,368} with the stock hash) are confused, so a node gets another node\'s subscribers — updates go to sessions that never subscribed and not to those that did')


def same_key_rule(res, fx, rule):
    """the per-depth entries table is selected with the depth of the very string that is then looked up in it"""
    n_key = 0
    for f in sorted((f for f in fx.funcs.values() if f.full and (f.cls or '') == SRS), key=lambda f: f.line):
        for c in f.walk():
            if c['k'] != 'CXXMemberCallExpr' or (c.get('q') or '').split('::')[-1] not in ('Get', 'ContainsKey', 'GetOrPut', 'Put', 'Remove') or not c.args() or c.receiver() is None:
                continue
            sub = [x for x in c.receiver().walk() if x['k'] in ('ArraySubscriptExpr', 'CXXOperatorCallExpr') and any((y.get('q') or '').endswith('PathMatcher::GetEntries') for y in x.walk() if y.is_call())]
            if not sub:
                continue
            idx = sub[0]['ch'][-1]
            keyvars = set(x['d'] for x in c.args()[0].walk() if x['k'] == 'DeclRefExpr' and 'd' in x)
            # the index expression, through one local, must be GetPathDepth(<expr over the same variable>)
            e = A.strip_casts(idx)
            if e['k'] == 'DeclRefExpr' and 'd' in e:
                dd = e['d']
                for v in f.walk():
                    if v['k'] == 'VarDecl' and v.get('d') == dd and v['ch']:
                        e = A.strip_casts(v['ch'][0])
            gpd = [y for y in e.walk() if y.is_call() and (y.get('q') or '') == 'muscle::GetPathDepth']
            if not gpd:
                continue
            n_key += 1
            dvars = set(x['d'] for x in gpd[0].walk() if x['k'] == 'DeclRefExpr' and 'd' in x)
            okk = bool(keyvars & dvars)
            res.ob(rule, f.where(c), 'lookup of `%s` in GetEntries()[depth] uses the depth of the same string' % c.args()[0].text(30), okk, how='depth = %s' % gpd[0].text(50), function=f.q,
                   key='%s|%s|same-key' % (rule, f.q),
                   message='%s looks `%s` up in the entries table for depth %s: a different string, so an existing subscription is not found and is registered a second time '
                           '(no filter diff is sent, the marks are counted twice)' % (f.q, c.args()[0].text(30), gpd[0].text(50)))
    if n_key < 1:
        raise AnalysisBroken(rule + ': the existing-subscription lookup (GetEntries()[GetPathDepth(p)].Get(p)) was not found')


def nullable_results_rule(res, fx, rule):
    """two places where a NULL can come from client-controlled input and must be tested before it is dereferenced:
    (a) GetStringMatcherFromPool(pattern) returns a NULL reference when the pattern does not compile;
    (b) the DataNode argument of QueryFilter::Matches() is optional (PathMatcher::MatchesPath passes NULL, e.g. when a client jettisons queued results)."""
    n = 0
    for f in sorted((g for g in fx.funcs.values() if g.full), key=lambda g: (g.file, g.line, g.id)):
        for v in f.walk():
            if v['k'] != 'VarDecl' or not v['ch'] or v.get('d') is None:
                continue
            init = A.strip_casts(v['ch'][0])
            srcs = [x for x in init.walk() if x.is_call() and (x.get('q') or '') == 'muscle::GetStringMatcherFromPool' and len([a for a in x.args() if a['k'] != 'CXXDefaultArgExpr']) >= 1]
            if not srcs:
                continue
            n += 1
            bad = None
            for u in f.walk():
                if u['k'] != 'DeclRefExpr' or u.get('d') != v['d'] or u['i'] == v['i']:
                    continue
                par = u.parent
                # uses that are themselves the test
                tested = False
                for (cn, t) in G.atoms_at(f, u):
                    n0, pol = P.strip_not(cn, t)
                    if any(y['k'] == 'DeclRefExpr' and y.get('d') == v['d'] for y in n0.walk()):
                        k_ = P.is_status_test(n0)
                        if (k_ == 'ok' and pol) or (k_ == 'err' and not pol) or (k_ is None and pol):
                            tested = True
                if tested:
                    continue
                # is this use a store (argument of a call other than its own operator()/status test) or a dereference?
                anc = [a for a in u.ancestors()]
                in_test = any(a['k'] in ('IfStmt', 'ConditionalOperator', 'WhileStmt') and a['ch'] and u['i'] in set(y['i'] for y in (a.role('cond') if a['k'] != 'ConditionalOperator' else a['ch'][0]).walk()) for a in anc if (a.role('cond') if a['k'] != 'ConditionalOperator' else a['ch'][0]) is not None)
                if in_test:
                    continue
                if par is not None and par.is_call():
                    q = par.get('q') or ''
                    if re.search(r'::(IsOK|IsError|GetStatus)$', q):
                        continue
                    bad = bad or u
            res.ob(rule, f.where(bad) if bad is not None else f.where(v), '%s: the matcher obtained for a pattern is tested for NULL before it is stored or used' % f.q.split('::')[-1], bad is None, function=f.q,
                   key='%s|%s|nullable-matcher:%s' % (rule, f.q, v.get('n')),
                   message='%s uses `%s` (from GetStringMatcherFromPool(pattern), which returns a NULL reference when the pattern does not compile) at line %s without a NULL test: a client that '
                           'supplies a malformed pattern makes the server dereference NULL later (e.g. the next connection evaluated against a stored ban pattern)' % (f.q, v.get('n'), bad.get('l') if bad is not None else ''))
    m = 0
    for f in sorted((g for g in fx.funcs.values() if g.full and g.q.endswith('QueryFilter::Matches') and len(g.params) >= 2 and 'DataNode' in g.ptype(g.params[1])), key=lambda g: (g.file, g.line, g.id)):
        d = g_d = f.params[1].get('d')
        derefs = [x for x in f.walk() if x['k'] == 'MemberExpr' and x.get('arrow') and x['ch'] and A.strip_casts(x['ch'][0])['k'] == 'DeclRefExpr' and A.strip_casts(x['ch'][0]).get('d') == d]
        derefs += [x for x in f.walk() if x['k'] == 'UnaryOperator' and x.get('op') == '*' and A.strip_casts(x['ch'][0]).get('d') == d and A.strip_casts(x['ch'][0])['k'] == 'DeclRefExpr']
        if not derefs:
            continue
        m += 1
        bad = None
        for x in derefs:
            if not any(A.strip_casts(cn)['k'] == 'DeclRefExpr' and A.strip_casts(cn).get('d') == d and t for (cn, t) in G.atoms_at(f, x)):
                bad = bad or x
        res.ob(rule, f.where(bad) if bad is not None else f.where(), '%s dereferences its optional DataNode argument only after testing it' % f.q.split('::')[-2], bad is None, function=f.q,
               key='%s|%s|optional-node' % (rule, f.q.split('<')[0]),
               message='%s dereferences its DataNode argument at line %s without a NULL test: PathMatcher::MatchesPath() evaluates filters with no node (a client that sends '
                       'PR_COMMAND_JETTISONRESULTS with such a filter while replies are queued crashes the server)' % (f.q, bad.get('l') if bad is not None else ''))
    if n < 1 or m < 1:
        raise AnalysisBroken('%s: nullable sources not found (matcher results %d, Matches() implementations dereferencing the node %d)' % (rule, n, m))


def marks_always_rule(res, fx, rule):
    """DataNode::SetParent places the subscribers' marks on a new node only when it is given a session to notify with: a node attached with NULL there carries no mark, so subscribers that
    pre-date it never hear of it again (not even of its removal when its owner departs).  The QUIET flag silences the data notification, never the attachment."""
    res.rule(rule, 'every DataNode::PutChild / InsertOrderedChild call made by a StorageReflectSession passes a session that cannot be NULL as the notify-on-set-parent argument '
                   '(no NULL literal and no conditional in the argument, looking through locals)', floor=3)
    n = 0
    for f in sorted((g for g in fx.funcs.values() if g.full and (g.cls or '') == 'muscle::StorageReflectSession'), key=lambda g: (g.file, g.line)):
        for c in f.walk():
            if not (c.is_call() and (c.get('q') or '') in ('muscle::DataNode::PutChild', 'muscle::DataNode::InsertOrderedChild')):
                continue
            i = 1 if c['q'].endswith('PutChild') else 3
            args = c.args()
            if len(args) <= i:
                continue
            n += 1
            xs = list(A.walk_through_locals(f, args[i]))
            bad = [x for x in xs if x['k'] in ('GNUNullExpr', 'CXXNullPtrLiteralExpr', 'ConditionalOperator') or (x['k'] == 'IntegerLiteral' and x.get('v') == 0)]
            res.ob(rule, f.where(c), '%s: the attachment of a node is always announced to the marks machinery' % f.q.split('::')[-1], not bad, function=f.q, key='%s|%s|%s' % (rule, f.q, c.get('l')),
                   message='%s passes a possibly-NULL session (`%s`) as the notify-on-set-parent argument of %s: DataNode::SetParent() then skips NodeCreated(), the new node gets no subscriber '
                           'marks, and sessions subscribed before it existed are never told about its later updates or its removal (when its owner departs the node vanishes silently)'
                           % (f.q, args[i].text(50), c['q'].split('::')[-1]))
    if n < 3:
        raise AnalysisBroken('%s: only %d PutChild/InsertOrderedChild call sites found in StorageReflectSession' % (rule, n))
