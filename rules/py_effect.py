"""PY-EFFECT: the Python Message codec writes exactly the bytes its size functions announce.

message.py is the fourth implementation of the wire format (C08).  Its Flatten() writes the length word of every field and of every nested Message from
GetFieldContentsLength()/FlattenedSize(), and the transceiver frames a Message with FlattenedSize(); the bytes themselves come from other statements.  If the two
disagree for some content, the length words lie and the C++ parser mis-frames (or rejects) what Python sent.

A small abstract interpreter over the Python `ast` of exactly this fragment: outFile.write(...) of struct.pack / bytes / encoded strings, calls of private helper
methods (inlined), `for item in contents` loops (SUM), the if/elif chain over fieldType (evaluated once per type-code constraint), isinstance(item, str) (ALT), and the
boolean flag juggling around array conversion (evaluated concretely for each value of the two free booleans: "_dataNeedsSwap" and "the caller stored an array.array").
Paths that end in `raise` are not serialisations.  Values are the polynomials of msa.effect.  Anything outside the fragment raises Outside -> exit 2, never a verdict."""
import ast as pyast
import array as pyarray
import struct as pystruct
from msa.effect import P, atom, padd, pmul, psum, palt, pstr, pconst, Outside


class Raised(Exception):
    pass


class Obj(object):
    """a non-numeric abstract value"""
    def __init__(self, kind, sym=None, code=None, n=None):
        self.kind = kind      # 'str' (symbol with LEN/LENENC), 'enc' (utf-8 bytes of sym), 'seq' (the field's contents), 'array' (array.array with type code), 'item' (element of seq), 'bytes' (constant bytes of n), 'file'
        self.sym = sym
        self.code = code
        self.n = n


class PyEval(object):
    def __init__(self, tree, consts, type_of_name):
        self.tree = tree
        self.consts = consts
        self.cls = None
        for n in pyast.walk(tree):
            if isinstance(n, pyast.ClassDef) and n.name == 'Message':
                self.cls = n
        if self.cls is None:
            raise Outside('class Message not found in message.py')
        self.methods = {}
        for n in self.cls.body:
            if isinstance(n, pyast.FunctionDef):
                self.methods[n.name] = n
        self.type_of_name = type_of_name       # the type-code constraint: name of the B_*_TYPE constant, or 'else'
        self.listed = set()
        self.depth = 0

    # ------------------------------------------------------------------------------------------------ helpers
    def method(self, name):
        if name in self.methods:
            return self.methods[name]
        # name-mangled private methods: self.__x is stored as __x
        for k in self.methods:
            if k.lstrip('_') == name.lstrip('_'):
                return self.methods[k]
        raise Outside('message.py: method %s not found' % name)

    def is_self_call(self, c, name=None):
        return isinstance(c, pyast.Call) and isinstance(c.func, pyast.Attribute) and isinstance(c.func.value, pyast.Name) and c.func.value.id == 'self' and (name is None or c.func.attr.lstrip('_') == name.lstrip('_'))

    # ------------------------------------------------------------------------------------------------ booleans
    def truth(self, e, env):
        if isinstance(e, pyast.Constant):
            return bool(e.value)
        if isinstance(e, pyast.Name):
            if e.id in env and isinstance(env[e.id], bool):
                return env[e.id]
            raise Outside('boolean `%s` at line %s is not decided by the analysis' % (e.id, e.lineno))
        if isinstance(e, pyast.UnaryOp) and isinstance(e.op, pyast.Not):
            return not self.truth(e.operand, env)
        if isinstance(e, pyast.BoolOp):
            vals = [self.truth(v, env) for v in e.values]
            return all(vals) if isinstance(e.op, pyast.And) else any(vals)
        if isinstance(e, pyast.Compare) and len(e.ops) == 1 and isinstance(e.ops[0], (pyast.Eq, pyast.NotEq)) and isinstance(e.left, pyast.Name) and isinstance(e.comparators[0], pyast.Name):
            names = (e.left.id, e.comparators[0].id)
            tv = [n for n in names if n in ('fieldType', 'fieldTypeCode')]
            cn = [n for n in names if n.startswith('B_') and n.endswith('_TYPE')]
            if tv and cn:
                self.listed.add(cn[0])
                eq = (self.type_of_name == cn[0])
                return eq if isinstance(e.ops[0], pyast.Eq) else (not eq)
        if isinstance(e, pyast.Call) and isinstance(e.func, pyast.Name) and e.func.id == 'isinstance' and len(e.args) == 2:
            v = self.obj(e.args[0], env)
            cls = pyast.unparse(e.args[1])
            if isinstance(v, Obj) and v.kind in ('seq', 'array') and cls == 'array.array':
                return v.kind == 'array'
        raise Outside('condition `%s` at line %s is outside the fragment' % (pyast.unparse(e), getattr(e, 'lineno', '?')))

    # ------------------------------------------------------------------------------------------------ objects
    def obj(self, e, env):
        if isinstance(e, pyast.Name):
            if e.id in env:
                return env[e.id]
            raise Outside('name `%s` at line %s is unbound' % (e.id, e.lineno))
        if isinstance(e, pyast.Call):
            f = e.func
            # x.encode()
            if isinstance(f, pyast.Attribute) and f.attr == 'encode':
                v = self.obj(f.value, env)
                if isinstance(v, Obj) and v.kind in ('str', 'item'):
                    return Obj('enc', sym=v.sym)
            # array.array('i', contents)
            if isinstance(f, pyast.Attribute) and f.attr == 'array' and isinstance(f.value, pyast.Name) and f.value.id == 'array' and e.args and isinstance(e.args[0], pyast.Constant):
                return Obj('array', sym=env['fieldContents'].sym if isinstance(env.get('fieldContents'), Obj) else 'contents', code=e.args[0].value)
            # bytes([0]) / bytes(array)
            if isinstance(f, pyast.Name) and f.id == 'bytes' and len(e.args) == 1:
                a = e.args[0]
                if isinstance(a, pyast.List):
                    return Obj('bytes', n=P(len(a.elts)))
                v = self.obj(a, env)
                if isinstance(v, Obj) and v.kind == 'array':
                    if v.code is None:
                        raise Outside('bytes() of an array of unknown type code at line %s' % e.lineno)
                    return Obj('bytes', n=pmul(P(pyarray.array(v.code).itemsize), atom('N(%s)' % v.sym)))
            # struct.pack(fmt, ...)
            if isinstance(f, pyast.Attribute) and f.attr == 'pack' and isinstance(f.value, pyast.Name) and f.value.id == 'struct' and e.args and isinstance(e.args[0], pyast.Constant):
                return Obj('bytes', n=P(pystruct.calcsize(e.args[0].value)))
            # self.GetFieldContents(name) / list(...) wrappers
            if self.is_self_call(e, 'GetFieldContents'):
                return env['__contents__']
            if self.is_self_call(e, 'GetFieldType'):
                return Obj('type')
            if isinstance(f, pyast.Name) and f.id == 'list' and len(e.args) == 1:
                return self.obj(e.args[0], env)
        if isinstance(e, pyast.BinOp) and isinstance(e.op, pyast.Add):
            # concatenation of byte strings
            a, b = self.obj(e.left, env), self.obj(e.right, env)
            return Obj('bytes', n=padd(self.nbytes(a, getattr(e, 'lineno', '?')), self.nbytes(b, getattr(e, 'lineno', '?'))))
        raise Outside('expression `%s` at line %s is outside the fragment' % (pyast.unparse(e), getattr(e, 'lineno', '?')))

    def nbytes(self, v, where):
        """number of bytes outFile.write(v) writes"""
        if isinstance(v, Obj):
            if v.kind == 'bytes':
                return v.n
            if v.kind == 'enc':
                return atom('LENENC(%s)' % v.sym)
            if v.kind == 'item':
                return atom('LEN(%s)' % v.sym)        # a bytes-like item: len() is its byte count
        raise Outside('outFile.write of a value of unknown size at line %s' % where)

    # ------------------------------------------------------------------------------------------------ integers (size functions)
    def num(self, e, env):
        if isinstance(e, pyast.Constant) and isinstance(e.value, int):
            return P(e.value)
        if isinstance(e, pyast.Name):
            if e.id in env and isinstance(env[e.id], dict):
                return env[e.id]
            raise Outside('integer `%s` at line %s is unbound' % (e.id, e.lineno))
        if isinstance(e, pyast.BinOp) and isinstance(e.op, (pyast.Add, pyast.Sub, pyast.Mult)):
            a, b = self.num(e.left, env), self.num(e.right, env)
            if isinstance(e.op, pyast.Add):
                return padd(a, b)
            if isinstance(e.op, pyast.Sub):
                return padd(a, {m: -c for m, c in b.items()})
            return pmul(a, b)
        if isinstance(e, pyast.IfExp):
            c = e.test
            if isinstance(c, pyast.Call) and isinstance(c.func, pyast.Name) and c.func.id == 'isinstance' and len(c.args) == 2 and pyast.unparse(c.args[1]) == 'str':
                v = self.obj(c.args[0], env)
                if isinstance(v, Obj) and v.kind == 'item':
                    return palt('isstr(%s)' % v.sym, self.num(e.body, env), self.num(e.orelse, env))
            return self.num(e.body, env) if self.truth(c, env) else self.num(e.orelse, env)
        if isinstance(e, pyast.Call):
            f = e.func
            if isinstance(f, pyast.Name) and f.id == 'len' and len(e.args) == 1:
                v = self.obj(e.args[0], env)
                if isinstance(v, Obj):
                    if v.kind in ('seq', 'array'):
                        return atom('N(%s)' % v.sym)
                    if v.kind == 'enc':
                        return atom('LENENC(%s)' % v.sym)
                    if v.kind in ('str', 'item'):
                        return atom('LEN(%s)' % v.sym)
            if isinstance(f, pyast.Attribute) and f.attr == 'FlattenedSize' and not e.args:
                v = self.obj(f.value, env)
                if isinstance(v, Obj) and v.kind == 'item':
                    return atom('FS(%s)' % v.sym)
            if self.is_self_call(e, 'GetFieldContentsLength'):
                return self.size_call(self.method('GetFieldContentsLength'), e, env)
        raise Outside('integer expression `%s` at line %s is outside the fragment' % (pyast.unparse(e), getattr(e, 'lineno', '?')))

    def size_call(self, fn, call, env):
        """symbolic return value of an accumulating size method"""
        params = [a.arg for a in fn.args.args][1:]
        e2 = {'__contents__': env.get('__contents__')}
        for p, a in zip(params, call.args):
            try:
                e2[p] = self.obj(a, env)
            except Outside:
                e2[p] = self.num(a, env)
        return self.size_body(fn.body, e2)

    def size_body(self, body, env):
        """runs the statements; returns the value of `return X` (a Poly)"""
        r = self.size_stmts(body, env)
        if r is None:
            raise Outside('size function falls off its end')
        return r

    def size_stmts(self, body, env):
        for s in body:
            if isinstance(s, pyast.Expr) and isinstance(s.value, pyast.Constant):
                continue                                    # docstring
            if isinstance(s, pyast.Pass):
                continue
            if isinstance(s, pyast.Return):
                return self.num(s.value, env)
            if isinstance(s, pyast.Assign) and len(s.targets) == 1 and isinstance(s.targets[0], pyast.Name):
                try:
                    env[s.targets[0].id] = self.num(s.value, env)
                except Outside:
                    env[s.targets[0].id] = self.obj(s.value, env)
                continue
            if isinstance(s, pyast.AugAssign) and isinstance(s.target, pyast.Name) and isinstance(s.op, pyast.Add):
                env[s.target.id] = padd(env[s.target.id], self.num(s.value, env))
                continue
            if isinstance(s, pyast.If):
                c = s.test
                if isinstance(c, pyast.Call) and isinstance(c.func, pyast.Name) and c.func.id == 'isinstance' and len(c.args) == 2 and pyast.unparse(c.args[1]) == 'str':
                    v = self.obj(c.args[0], env)
                    if isinstance(v, Obj) and v.kind == 'item':
                        # per-item representation test: both arms count; the accumulators become ALT{isstr(item)}(a|b)
                        e1, e2 = dict(env), dict(env)
                        if self.size_stmts(s.body, e1) is not None or self.size_stmts(s.orelse, e2) is not None:
                            raise Outside('return under a per-item test at line %s' % s.lineno)
                        for k in set(e1) | set(e2):
                            a, b = e1.get(k), e2.get(k)
                            if isinstance(a, dict) and isinstance(b, dict) and a != b:
                                base = env.get(k, {})
                                env[k] = padd(base, palt('isstr(%s)' % v.sym, padd(a, {m: -c_ for m, c_ in base.items()}), padd(b, {m: -c_ for m, c_ in base.items()})))
                        continue
                r = self.size_stmts(s.body if self.truth(s.test, env) else s.orelse, env)
                if r is not None:
                    return r
                continue
            if isinstance(s, pyast.For) and isinstance(s.target, pyast.Name):
                it = self.obj(s.iter, env)
                if not (isinstance(it, Obj) and it.kind in ('seq', 'array')):
                    raise Outside('loop at line %s does not run over the field contents' % s.lineno)
                acc = [t.target.id for t in pyast.walk(s) if isinstance(t, pyast.AugAssign) and isinstance(t.target, pyast.Name)]
                e2 = dict(env)
                e2[s.target.id] = Obj('item', sym='%s[i]' % it.sym)
                for a in set(acc):
                    e2[a] = P(0)
                if self.size_stmts(s.body, e2) is not None:
                    raise Outside('return inside the loop at line %s' % s.lineno)
                for a in set(acc):
                    env[a] = padd(env[a], psum('i', atom('N(%s)' % it.sym), e2[a]))
                continue
            raise Outside('statement at line %s of a size function is outside the fragment' % s.lineno)
        return None

    # ------------------------------------------------------------------------------------------------ writer
    def write_stmts(self, body, env):
        tot = {}
        for s in body:
            if isinstance(s, pyast.Expr) and isinstance(s.value, pyast.Constant):
                continue
            if isinstance(s, (pyast.Global, pyast.Pass)):
                continue
            if isinstance(s, pyast.Raise):
                raise Raised()
            if isinstance(s, pyast.Expr) and isinstance(s.value, pyast.Call):
                c = s.value
                f = c.func
                if isinstance(f, pyast.Attribute) and f.attr == 'write' and len(c.args) == 1 and isinstance(self.objq(f.value, env), Obj) and self.objq(f.value, env).kind == 'file':
                    tot = padd(tot, self.nbytes(self.obj(c.args[0], env), s.lineno))
                    continue
                if isinstance(f, pyast.Attribute) and f.attr == 'Flatten' and len(c.args) == 1:
                    v = self.obj(f.value, env)
                    if isinstance(v, Obj) and v.kind == 'item':
                        tot = padd(tot, atom('FS(%s)' % v.sym))       # induction: a nested Message writes what its FlattenedSize() says
                        continue
                if isinstance(f, pyast.Attribute) and f.attr == 'byteswap':
                    continue
                if self.is_self_call(c):
                    g = self.method(f.attr)
                    params = [a.arg for a in g.args.args][1:]
                    e2 = {}
                    for p, a in zip(params, c.args):
                        e2[p] = self.obj(a, env)
                    self.depth += 1
                    if self.depth > 4:
                        raise Outside('helper nesting too deep at line %s' % s.lineno)
                    try:
                        tot = padd(tot, self.write_stmts(g.body, e2))
                    finally:
                        self.depth -= 1
                    continue
                raise Outside('call `%s` at line %s is outside the fragment' % (pyast.unparse(c)[:60], s.lineno))
            if isinstance(s, pyast.Assign) and len(s.targets) == 1 and isinstance(s.targets[0], pyast.Name):
                nm = s.targets[0].id
                try:
                    env[nm] = self.truth(s.value, env)
                except Outside:
                    env[nm] = self.obj(s.value, env)
                continue
            if isinstance(s, pyast.If):
                c = s.test
                # per-item representation test: both arms are serialisations
                if isinstance(c, pyast.Call) and isinstance(c.func, pyast.Name) and c.func.id == 'isinstance' and len(c.args) == 2 and pyast.unparse(c.args[1]) == 'str':
                    v = self.obj(c.args[0], env)
                    if isinstance(v, Obj) and v.kind == 'item':
                        e1, e2 = dict(env), dict(env)
                        e1[c.args[0].id] = Obj('str', sym=v.sym)
                        a = self.write_stmts(s.body, e1)
                        b = self.write_stmts(s.orelse, e2)
                        tot = padd(tot, palt('isstr(%s)' % v.sym, a, b))
                        continue
                tot = padd(tot, self.write_stmts(s.body if self.truth(c, env) else s.orelse, env))
                continue
            if isinstance(s, pyast.For) and isinstance(s.target, pyast.Name):
                it = self.obj(s.iter, env)
                if not (isinstance(it, Obj) and it.kind in ('seq', 'array')):
                    raise Outside('loop at line %s does not run over the field contents' % s.lineno)
                e2 = dict(env)
                e2[s.target.id] = Obj('item', sym='%s[i]' % it.sym)
                tot = padd(tot, psum('i', atom('N(%s)' % it.sym), self.write_stmts(s.body, e2)))
                continue
            raise Outside('statement at line %s of the writer is outside the fragment' % s.lineno)
        return tot

    def objq(self, e, env):
        try:
            return self.obj(e, env)
        except Outside:
            return None


def field_loop(fn):
    """the `for fieldName in ...` loop of Flatten / FlattenedSize, and the statements before it"""
    for i, s in enumerate(fn.body):
        if isinstance(s, pyast.For) and isinstance(s.target, pyast.Name):
            return fn.body[:i], s
    raise Outside('%s has no loop over the fields' % fn.name)


def analyse(tree, consts, type_names):
    """-> list of dict(kind='header'|'field', type, swap, isarray, writer Poly, size Poly, line)"""
    out = []
    ev0 = PyEval(tree, consts, None)
    wf, sf = ev0.method('Flatten'), ev0.method('FlattenedSize')
    wpre, wloop = field_loop(wf)
    spre, sloop = field_loop(sf)
    # header: bytes written before the loop vs the initial value of the accumulator
    ev = PyEval(tree, consts, None)
    wenv = {wf.args.args[1].arg: Obj('file')}
    hw = ev.write_stmts(wpre, dict(wenv))
    senv = {}
    if ev.size_stmts([s for s in spre if not (isinstance(s, pyast.Assign) and isinstance(s.value, pyast.Call) and ev.is_self_call(s.value))], senv) is not None:
        raise Outside('FlattenedSize returns before its loop')
    acc = [k for k, v in senv.items() if isinstance(v, dict)]
    if len(acc) != 1:
        raise Outside('FlattenedSize: accumulator not identified')
    out.append({'kind': 'header', 'writer': hw, 'size': senv[acc[0]], 'line': wf.lineno})
    listed = set()
    for tname in type_names + ['else']:
        for swap in (False, True):
            for isarr in (False, True):
                ev = PyEval(tree, consts, tname)
                contents = Obj('array', sym='contents', code=None) if isarr else Obj('seq', sym='contents')
                env = {wf.args.args[1].arg: Obj('file'), '_dataNeedsSwap': swap, '__contents__': contents, wloop.target.id: Obj('str', sym='name')}
                try:
                    w = ev.write_stmts(wloop.body, env)
                except Raised:
                    continue          # Flatten refuses this combination (an array stored under a non-array type)
                except Outside as e:
                    if isarr and 'unknown type code' in str(e):
                        # the caller stored an array.array and no conversion took place: its item width is whatever the caller chose; the documented width is checked by SHAPE
                        continue
                    raise
                ev2 = PyEval(tree, consts, tname)
                e2 = {acc[0]: P(0), '__contents__': contents, sloop.target.id: Obj('str', sym='name')}
                if ev2.size_stmts(sloop.body, e2) is not None:
                    raise Outside('FlattenedSize returns inside its loop')
                out.append({'kind': 'field', 'type': tname, 'swap': swap, 'isarray': isarr, 'writer': w, 'size': e2[acc[0]], 'line': wloop.lineno})
                listed |= ev.listed | ev2.listed
    return out, listed
