"""Shared loading helpers for the rule modules."""
import os
from msa import facts as F
from msa.callgraph import CallGraph

INSTANTIATE = os.path.join(F.VERIF, 'engine', 'instantiate.cpp')


def load_all(res, tier, fn_regex='.*', with_c=True, macros=False, with_inst=False):
    units = F.library_units()
    if with_c:
        units = units + F.C_UNITS
    extra = [INSTANTIATE] if (with_inst and os.path.exists(INSTANTIATE)) else []
    fx = F.load(units, fn_regex=fn_regex, macros=macros, extra_units=extra)
    res.units = list(units) + [os.path.relpath(e, F.VERIF) for e in extra]
    res.extra['extractor'] = dict(fx.stats)
    res.extra['repo'] = F.REPO
    return fx


def load_units(res, units, fn_regex='.*', macros=False, extra=None):
    fx = F.load(units, fn_regex=fn_regex, macros=macros, extra_units=extra or [])
    res.units = list(units) + [os.path.relpath(e, F.VERIF) for e in (extra or [])]
    res.extra['extractor'] = dict(fx.stats)
    res.extra['repo'] = F.REPO
    return fx


def entry_ids(fx, names):
    ids = []
    for q in names:
        fs = fx.fn(q, full=False)
        ids.extend(f.id for f in fs)
    return ids


def nest_tls_rule(res, fx, rule, file_res):
    """a recursion guard kept in a namespace-scope NestCount counts the nesting of the CURRENT THREAD's parse: the parsers may run on any thread at once"""
    import re
    nguards = []
    for gv in fx.gvars:
        ts = gv.get('_types')
        tn = ts[gv['t']] if ts and isinstance(gv.get('t'), int) and gv['t'] < len(ts) else ''
        if tn.replace('const ', '').strip() in ('muscle::NestCount', 'NestCount') and any(re.search(a_, gv['file']) for a_ in file_res):
            nguards.append(gv)        # (counters of other subsystems, e.g. the logger's re-entrancy flag, are not parse guards)
    seen_g = set()
    for gv in nguards:
        if gv['q'] in seen_g:
            continue
        seen_g.add(gv['q'])
        res.ob(rule, '%s:%s' % (gv['file'], gv['line']), 'the global nesting counter %s is thread-local' % gv['q'], gv.get('tls') == 1, function=gv['q'], key='%s|%s|thread-local' % (rule, gv['q']),
               message='the recursion-depth counter %s is shared by all threads: the nesting depths of concurrent parses add up (valid Messages are rejected once the sum reaches the limit) and the '
                       'unsynchronised updates make the count drift, so the guard neither bounds the recursion of one thread nor admits what it should' % gv['q'])
    # no such counter: nothing to require here — whether the parser recursion is bounded at all is decided by the recursion rule itself (R-REC reports the unguarded cycle)
    return len(seen_g)
