"""Shared loading helpers for the rule modules."""
import os
from msa import facts as F
from msa.callgraph import CallGraph

INSTANTIATE = os.path.join(F.VERIF, 'engine', 'instantiate.cpp')


def load_all(res, tier, fn_regex='.*', with_c=True, macros=False, with_inst=False):
    units = F.library_units()
    if with_c:
        units = units + F.C_UNITS
    extra = [INSTANTIATE] if (with_inst and os.path.exists(INSTANTIATE)) else []
    fx = F.load(units, fn_regex=fn_regex, macros=macros, extra_units=extra)
    res.units = list(units) + [os.path.relpath(e, F.VERIF) for e in extra]
    res.extra['extractor'] = dict(fx.stats)
    res.extra['repo'] = F.REPO
    return fx


def load_units(res, units, fn_regex='.*', macros=False, extra=None):
    fx = F.load(units, fn_regex=fn_regex, macros=macros, extra_units=extra or [])
    res.units = list(units) + [os.path.relpath(e, F.VERIF) for e in (extra or [])]
    res.extra['extractor'] = dict(fx.stats)
    res.extra['repo'] = F.REPO
    return fx


def entry_ids(fx, names):
    ids = []
    for q in names:
        fs = fx.fn(q, full=False)
        ids.extend(f.id for f in fs)
    return ids
