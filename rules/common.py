"""Shared loading helpers for the rule modules."""
import os
from msa import facts as F
from msa.callgraph import CallGraph

INSTANTIATE = os.path.join(F.VERIF, 'engine', 'instantiate.cpp')


def load_all(res, tier, fn_regex='.*', with_c=True, macros=False, with_inst=False):
    units = F.library_units()
    if with_c:
        units = units + F.C_UNITS
    extra = [INSTANTIATE] if (with_inst and os.path.exists(INSTANTIATE)) else []
    fx = F.load(units, fn_regex=fn_regex, macros=macros, extra_units=extra)
    res.units = list(units) + [os.path.relpath(e, F.VERIF) for e in extra]
    res.extra['extractor'] = dict(fx.stats)
    res.extra['repo'] = F.REPO
    return fx


def load_units(res, units, fn_regex='.*', macros=False, extra=None):
    fx = F.load(units, fn_regex=fn_regex, macros=macros, extra_units=extra or [])
    res.units = list(units) + [os.path.relpath(e, F.VERIF) for e in (extra or [])]
    res.extra['extractor'] = dict(fx.stats)
    res.extra['repo'] = F.REPO
    return fx


def entry_ids(fx, names):
    ids = []
    for q in names:
        fs = fx.fn(q, full=False)
        ids.extend(f.id for f in fs)
    return ids


def nest_tls_rule(res, fx, rule, file_res):
    """a recursion guard kept in a namespace-scope NestCount counts the nesting of the CURRENT THREAD's parse: the parsers may run on any thread at once"""
    import re
    nguards = []
    for gv in fx.gvars:
        ts = gv.get('_types')
        tn = ts[gv['t']] if ts and isinstance(gv.get('t'), int) and gv['t'] < len(ts) else ''
        if tn.replace('const ', '').strip() in ('muscle::NestCount', 'NestCount') and any(re.search(a_, gv['file']) for a_ in file_res):
            nguards.append(gv)        # (counters of other subsystems, e.g. the logger's re-entrancy flag, are not parse guards)
    seen_g = set()
    for gv in nguards:
        if gv['q'] in seen_g:
            continue
        seen_g.add(gv['q'])
        res.ob(rule, '%s:%s' % (gv['file'], gv['line']), 'the global nesting counter %s is thread-local' % gv['q'], gv.get('tls') == 1, function=gv['q'], key='%s|%s|thread-local' % (rule, gv['q']),
               message='the recursion-depth counter %s is shared by all threads: the nesting depths of concurrent parses add up (valid Messages are rejected once the sum reaches the limit) and the '
                       'unsynchronised updates make the count drift, so the guard neither bounds the recursion of one thread nor admits what it should' % gv['q'])
    # no such counter: nothing to require here — whether the parser recursion is bounded at all is decided by the recursion rule itself (R-REC reports the unguarded cycle)
    return len(seen_g)


def param_underflow_rule(res, fx, rule, floor=1, file_re=r'.*', only_reach=None):
    """UNDERFLOW: `a - b` on two unsigned length PARAMETERS of one function wraps to ~2^32 when b > a; callers supply the two lengths independently, so the function itself has to have
    compared them (a >= b, in any spelling) on every path to the subtraction.  Judged for every such subtraction in the analysed functions (optionally only those in `only_reach`)."""
    import re
    from msa import ast as A, guards as G
    res.rule(rule if isinstance(rule, str) else rule[0], 'UNDERFLOW: an unsigned subtraction whose two operands are (computed from) two different unsigned parameters of the function is reached only where the '
             'subtrahend parameter was compared with the minuend parameter and found not larger', floor=None)
    rule = rule if isinstance(rule, str) else rule[0]
    n = 0
    U = re.compile(r'^(const )?(unsigned int|unsigned long|unsigned short|size_t|muscle::uint32|uint32|uint64|muscle::uint64)$')
    for f in sorted((f for f in fx.funcs.values() if f.full and re.search(file_re, f.file) and (only_reach is None or f.id in only_reach)), key=lambda f: (f.file, f.line, f.id)):
        ups = dict((p_['d'], p_) for p_ in f.params if p_.get('d') is not None and U.match(f.ptype(p_).strip()))
        if len(ups) < 2:
            continue
        seen = set()
        for c in f.walk():
            if c['k'] != 'BinaryOperator' or c.get('op') != '-' or not U.match((c.type() or '').strip()):
                continue
            rhs = A.strip_casts(c['ch'][1])
            if rhs['k'] != 'DeclRefExpr' or rhs.get('d') not in ups:
                continue
            lds = set(x.get('d') for x in c['ch'][0].walk() if x['k'] == 'DeclRefExpr' and x.get('d') in ups and x.get('d') != rhs['d'])
            if len(lds) != 1:
                continue
            a, b = list(lds)[0], rhs['d']
            if (c.get('l'), a, b) in seen:
                continue
            seen.add((c.get('l'), a, b))
            n += 1

            def established(h, node, db, da):
                """at `node` of h the variable db is known not to exceed da: a dominating comparison, or a clamp `db = min(db, da)` that precedes on every path"""
                from msa import pair as P
                for (cn, t) in G.atoms_at(h, node):
                    for (l_, op_, r_) in A.rel_forms(cn, t):
                        if l_['k'] == 'DeclRefExpr' and r_['k'] == 'DeclRefExpr' and l_.get('d') == db and r_.get('d') == da and op_ in ('<', '<=', '=='):
                            return True
                clamps = []
                for w in h.walk():
                    rhs = w['ch'][1] if (w['k'] == 'BinaryOperator' and w.get('op') == '=' and A.strip_casts(w['ch'][0]).get('d') == db) else (w['ch'][0] if (w['k'] == 'VarDecl' and w.get('d') == db and w['ch']) else None)
                    mm = A.min_max(rhs) if rhs is not None else None
                    if mm is not None and mm[0] == 'min' and any(x.get('d') == da for x in mm[1]):
                        clamps.append(w)
                return bool(clamps) and P.must_precede(h, clamps, node)
            ok = established(f, c, b, a)
            if not ok:
                # an extracted block: the relation is established where the helper is called (every call site, with plain variables as arguments)
                from msa import ip as IP
                cs = IP.call_sites_of(fx, f, r'.')
                ia = [k_ for k_, q_ in enumerate(f.params) if q_.get('d') == a]
                ib = [k_ for k_, q_ in enumerate(f.params) if q_.get('d') == b]
                if cs and ia and ib:
                    ok = True
                    for (h, cc) in cs:
                        args = cc.args()
                        if cc['k'] == 'CXXOperatorCallExpr' and len(args) == len(f.params) + 1:
                            args = args[1:]
                        xa = A.strip_casts(args[ia[0]]) if ia[0] < len(args) else None
                        xb = A.strip_casts(args[ib[0]]) if ib[0] < len(args) else None
                        if xa is None or xb is None or xa['k'] != 'DeclRefExpr' or xb['k'] != 'DeclRefExpr' or not established(h, cc, xb.get('d'), xa.get('d')):
                            ok = False
            res.ob(rule, f.where(c), '%s: `%s` is computed only where %s <= %s' % (f.q.split('::')[-1], c.text(40), ups[b].get('n'), ups[a].get('n')), ok, function=f.q,
                   key='%s|%s|underflow:%s-%s' % (rule, f.q, ups[a].get('n'), ups[b].get('n')),
                   message='%s computes `%s` from its two unsigned parameters without having compared them: when %s > %s the result wraps to about 4 billion — a scan length, copy size or loop bound '
                           'of that size runs off the end of the buffer (the caller supplies the two lengths independently: a query-filter operand longer than the field it is tested against)'
                           % (f.q, c.text(50), ups[b].get('n'), ups[a].get('n')))
    if n < floor:
        from msa.facts import AnalysisBroken
        raise AnalysisBroken('%s: only %d two-parameter subtractions found' % (rule, n))
    return n
