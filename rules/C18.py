"""C18  The reader/writer mutex excludes correctly and never strands a compliant thread.
LOCKSET (state tables under _stateMutex), ADMIT (a new thread enters the executing table only behind the true edge of the matching admission test, in the same
critical section; the admission tests require 'no writer active' / 'nobody executing'), NO-WAIT-UNDER-LOCK, RECHECK (waits sit in a loop and the test is repeated
after every wake-up), HANDOFF (after a thread leaves the executing table or a waiter gives up, a notify routine is reachable in the same critical section)."""
import re
from msa import guards as G
from msa import ip as IP
from msa import pair as P
from msa import ast as A
from msa import cfg as C
from msa import lockset as L
from msa.facts import AnalysisBroken
from . import common
from .C19 import lockset_rule

RW = 'muscle::ReaderWriterMutex'
STATE = ('_executingThreads', '_waitingReaderThreads', '_waitingWriterThreads', '_totalReadWriteRecurseCount', '_preferWriters')
LOCK = ('this', '_stateMutex')
NOTIFY = re.compile(r'^muscle::ReaderWriterMutex::(MaybeNotifySomeWaitingThreads|NotifySomeWaitingThreads|NotifyAllReaderThreads|NotifyNextWriterThread)$')


def conj_atoms(e):
    e = A.strip_casts(e)
    if e['k'] == 'BinaryOperator' and e.get('op') == '&&':
        return conj_atoms(e['ch'][0]) + conj_atoms(e['ch'][1])
    return [e]


def guard_ids(flow, f, node):
    p = P.pos_of(f, node)
    return set(flow._transfer(p[0], flow.IN[p[0]], upto=p[1])) if p and flow.IN.get(p[0]) is not None else set()


def run(res, tier):
    fx = common.load_units(res, ['system/ReaderWriterMutex.cpp'], fn_regex=r'^muscle::(ReaderWriterMutex|WaitCondition)(::|$)')
    funcs = [f for f in fx.funcs.values() if f.full and f.cls == RW]
    if len(funcs) < 12:
        raise AnalysisBroken('only %d ReaderWriterMutex functions' % len(funcs))
    res.functions_analysed = len(funcs)
    EXC = {('Print', '*'): 'debug printer', ('GetOrAllocateThreadState', '*'): 'operates on the table reference it is given; called with the lock (inferred)'}
    cl, n_acc = lockset_rule(res, fx, RW, funcs, STATE, LOCK, 'LOCKSET', EXC, floor=8)
    res.extra['guarded_accesses'] = n_acc
    res.extra['inferred_entry_locks'] = {f.q.split('::')[-1]: sorted(k[1] for k in cl.entry[f.id]) for f in funcs if cl.entry.get(f.id)}
    for name in ('IsOkayForReaderThreadsToExecuteNow', 'IsOkayForWriterThreadToExecuteNow', 'NotifySomeWaitingThreads', 'NotifyNextWriterThread', 'NotifyAllReaderThreads', 'GetOrAllocateThreadState', 'MaybeNotifySomeWaitingThreads'):
        f = fx.fn1(RW + '::' + name)
        res.ob('LOCKSET', f.where(), '%s (assumes _stateMutex) is only called with it held' % name, LOCK in (cl.entry.get(f.id) or ()), function=f.q, how='held at all call sites',
               key='LOCKSET|%s|precondition' % f.q, message='%s is documented to assume _stateMutex but a call site does not hold it' % f.q)
    # ---------------------------------------------------------------------------------- admission test bodies
    res.rule('ADMIT', 'the reader admission test requires _totalReadWriteRecurseCount == 0, the writer admission test requires _executingThreads.IsEmpty(); every registration of a new thread in '
                      '_executingThreads is dominated by the true edge of the matching test taken under the same guard object', floor=6)
    def true_returns_imply(f, pred):
        """every `return e` of the bool function f is `return false`, or e == true (together with the branch edges that dominate the return) implies an atom accepted by pred"""
        rets = [n for n in f.walk() if n['k'] == 'ReturnStmt']
        if not rets:
            return False
        for r in rets:
            e = A.strip_casts(r['ch'][0])
            if e['k'] == 'CXXBoolLiteralExpr' and not e.get('v'):
                continue
            atoms = A.implied_atoms(e, True)
            p = P.pos_of(f, r)
            for (g, t) in (C.guards_of_block(f, p[0]) if p else ()):
                atoms += A.implied_atoms(f.nodes[g], t)
            ex = []
            for (a, t) in atoms:      # a local bool holding a conjunction
                if a['k'] == 'DeclRefExpr' and t:
                    for v in f.walk():
                        if v['k'] == 'VarDecl' and v.get('d') == a.get('d') and v['ch']:
                            ex += A.implied_atoms(v['ch'][0], True)
            if not any(pred(a, t) for (a, t) in atoms + ex):
                return False
        return True

    def rw_count_zero(a, t):
        z = A.zero_test(a, t)
        return z is not None and z[1] and A.strip_casts(z[0]).get('n') == '_totalReadWriteRecurseCount'

    def executing_empty(a, t):
        z = A.emptiness(a, t)
        return z is not None and z[1] and z[0] is not None and A.strip_casts(z[0]).get('n') == '_executingThreads'

    f = fx.fn1(RW + '::IsOkayForReaderThreadsToExecuteNow')
    res.ob('ADMIT', f.where(), 'readers are admitted only if no write lock is held (every true return implies _totalReadWriteRecurseCount == 0)', true_returns_imply(f, rw_count_zero), function=f.q,
           key='ADMIT|%s|body' % f.q, message='IsOkayForReaderThreadsToExecuteNow can return true while a writer holds the lock: readers and a writer execute together')
    f = fx.fn1(RW + '::IsOkayForWriterThreadToExecuteNow')
    res.ob('ADMIT', f.where(), 'a writer is admitted only if nobody is executing (every true return implies that _executingThreads is empty)', true_returns_imply(f, executing_empty), function=f.q,
           key='ADMIT|%s|body' % f.q,
           message='IsOkayForWriterThreadToExecuteNow can return true while other threads hold the lock: a writer runs together with readers or another writer')
    # ---------------------------------------------------------------------------------- registrations
    n_reg = 0
    RWS = r'^muscle::ReaderWriterMutex::'
    for (fname, test) in (('LockReadOnlyAux', 'IsOkayForReaderThreadsToExecuteNow'), ('LockReadWriteAux', 'IsOkayForWriterThreadToExecuteNow')):
        f = fx.fn1(RW + '::' + fname)
        # the registration may sit in the Lock*Aux method or in a private helper split off it (single call site; msa/ip.py)
        for g_ in IP.scope(fx, f, RWS, single_caller=True):
            flow = cl.flow(g_)
            for c in g_.walk():
                if c['k'] == 'CXXMemberCallExpr' and (c.get('q') or '') == RW + '::GetOrAllocateThreadState' and c.args() and A.strip_casts(c.args()[0]).get('n') == '_executingThreads':
                    n_reg += 1
                    adm = None
                    for (n, pol) in IP.atoms_at_ip(fx, f, g_, c, RWS):
                        if n.is_call() and (n.get('q') or '') == RW + '::' + test and pol:
                            adm = n
                    same_cs = False
                    if adm is not None:
                        if adm.func is g_:
                            same_cs = bool(guard_ids(flow, g_, adm) & guard_ids(flow, g_, c))
                        else:
                            # the test dominates the call of the helper in the caller; the helper is entered with the lock held and the call sits in the test's critical section
                            h_ = adm.func
                            sites = [cs for (hh, cs) in IP.call_sites_of(fx, g_, RWS) if hh is h_]
                            same_cs = LOCK in (cl.entry.get(g_.id) or ()) and bool(sites) and bool(guard_ids(cl.flow(h_), h_, adm) & guard_ids(cl.flow(h_), h_, sites[0]))
                    res.ob('ADMIT', g_.where(c), 'registration in _executingThreads (%s line %s) is behind %s() == true under the same guard' % (g_.q.split('::')[-1], c.get('l'), test), adm is not None and same_cs, function=f.q,
                           how='admission test at line %s, guard object %s' % (adm.get('l') if adm else '?', sorted(guard_ids(flow, g_, c))), key='ADMIT|%s|register:%d' % (f.q, n_reg),
                           message='%s registers the calling thread as executing at line %s without the true edge of %s() in the same critical section: the lock can be entered while it must be excluded'
                                   % (g_.q, c.get('l'), test))
    if n_reg < 4:
        raise AnalysisBroken('ADMIT: expected 4 registrations of new threads, found %d' % n_reg)
    # recursive fast paths: increments of an existing entry are behind `ts` non-null from _executingThreads.Get(tid)
    f = fx.fn1(RW + '::LockReadWriteAux')
    inc = [n for n in f.walk() if n['k'] == 'UnaryOperator' and n.get('op') in ('post++', 'pre++') and A.strip_casts(n['ch'][0]).get('n') == '_totalReadWriteRecurseCount']
    okf = bool(inc)
    for i in inc:
        adm = any(n.is_call() and (n.get('q') or '').endswith('IsOkayForWriterThreadToExecuteNow') and pol for (n, pol) in G.atoms_at(f, i))
        # or the sole-holder / already-writer fast path
        paths, complete = C.paths_between(f, (f.entry, -1), P.pos_of(f, i))
        fast = complete and bool(paths)
        for asg in paths:
            good = False
            for (cid, truth) in asg.items():
              for (n, tr) in G.atoms_of_cond(f, f.nodes[cid], truth):
                z = A.zero_test(n, tr)
                if z is not None and not z[1] and A.strip_casts(z[0]).get('n') == '_readWriteRecurseCount':
                    good = True       # the caller already holds the write lock
                for (l, op, r) in A.rel_forms(n, tr):
                    if ((op, r.get('v')) in (('==', 1), ('<=', 1), ('<', 2))) and l.is_call() and (l.get('q') or '').endswith('::GetNumItems') and A.strip_casts(l.receiver()).get('n') == '_executingThreads':
                        good = True   # the caller (present in the table) is the sole executing thread
                if n.is_call() and (n.get('q') or '').endswith('IsOkayForWriterThreadToExecuteNow') and tr:
                    good = True
            fast = fast and good
        okf = okf and (adm or fast)
    res.ob('ADMIT', f.where(), 'every increment of the write-lock count is behind the writer test, or the caller already writes, or it is the sole executing thread', okf, function=f.q,
           key='ADMIT|%s|increment' % f.q, message='LockReadWriteAux can grant write access on a path where other threads execute and the caller does not already hold the write lock')
    # ---------------------------------------------------------------------------------- waits
    res.rule('WAIT', 'WaitCondition::Wait is never reached with _stateMutex held, sits inside a loop, and after it returns the admission test is re-evaluated before the thread registers', floor=2)
    nw = 0
    for f in funcs:
        flow = cl.flow(f)
        for c in f.walk():
            if c.is_call() and (c.get('q') or '').endswith('WaitCondition::Wait'):
                nw += 1
                held = cl.may_held_at(f, c)
                inloop = any(P.pos_of(f, c)[0] in body for (h, body) in C.natural_loops(f))
                res.ob('WAIT', f.where(c), 'Wait() in %s: lock released, inside a re-check loop' % f.q.split('::')[-1], LOCK not in held and inloop, function=f.q,
                       how='lock set %s; in loop: %s' % (sorted(k[1] for k in held), inloop), key='WAIT|%s|wait' % f.q,
                       message='%s %s: %s' % (f.q, 'waits while holding _stateMutex' if LOCK in held else 'waits outside a loop',
                                              'no other thread can update the state and notify (deadlock)' if LOCK in held else 'a spurious or stolen wake-up lets the thread proceed without re-testing admission'))
    if nw < 2:
        raise AnalysisBroken('WAIT: expected two waits, found %d' % nw)
    # ---------------------------------------------------------------------------------- HANDOFF
    res.rule('HANDOFF', 'after every removal from _executingThreads, and after a waiter removes itself, a notify routine is reachable without leaving the critical section', floor=5)
    nh = 0
    for f in sorted(funcs, key=lambda f: f.line):
        flow = cl.flow(f)
        for c in f.walk():
            if c['k'] == 'CXXMemberCallExpr' and (c.get('q') or '').endswith('::Remove') and c.receiver() is not None and A.strip_casts(c.receiver()).get('n') in ('_executingThreads', '_waitingReaderThreads', '_waitingWriterThreads'):
                tbl = A.strip_casts(c.receiver()).get('n')
                nh += 1
                nots = [x for x in f.walk() if x.is_call() and NOTIFY.search(x.get('q') or '')]
                gid = guard_ids(flow, f, c)
                cands = [x for x in nots if guard_ids(flow, f, x) & gid or (cl.entry.get(f.id) and LOCK in cl.entry[f.id])]
                reach = any(C.can_reach(f, P.pos_of(f, c), set([P.pos_of(f, x)])) for x in cands)
                res.ob('HANDOFF', f.where(c), '%s.Remove in %s can reach a notify routine under the same guard' % (tbl, f.q.split('::')[-1]), reach, function=f.q,
                       how='notify candidates at lines %s' % [x.get('l') for x in cands], key='HANDOFF|%s|%s:%d' % (f.q, tbl, nh),
                       message='%s removes an entry from %s and no notify routine is reachable afterwards in the same critical section: waiting threads are never woken (lost wake-up / stall)' % (f.q, tbl))
    # ---- round-2 additions
    for f in sorted(funcs, key=lambda f: f.line):
        for c in f.walk():
            if c['k'] != 'CXXMemberCallExpr' or c.receiver() is None:
                continue
            tbl = A.strip_casts(c.receiver()).get('n')
            m = (c.get('q') or '').split('::')[-1]
            p = P.pos_of(f, c)
            gs = [(f.nodes[g], t) for (g, t) in (C.guards_of_block(f, p[0]) if p else [])]
            # (a) a waiter that gives up (the wait returned an error) removes ITS OWN registration
            if tbl in ('_waitingReaderThreads', '_waitingWriterThreads') and m.startswith('Remove'):
                on_error = any(P.is_status_test(P.strip_not(gn)[0]) == 'err' and t == P.strip_not(gn)[1] for (gn, t) in gs) or \
                    any(P.is_status_test(P.strip_not(gn)[0]) == 'ok' and t != P.strip_not(gn)[1] for (gn, t) in gs)
                if on_error:
                    keyed = m == 'Remove' and c.args() and A.strip_casts(c.args()[0])['k'] == 'DeclRefExpr'
                    res.ob('HANDOFF', f.where(c), '%s: a waiter that times out removes its own entry from %s (by thread id)' % (f.q.split('::')[-1], tbl), bool(keyed), function=f.q,
                           key='HANDOFF|%s|%s:own-entry' % (f.q, tbl),
                           message='%s cleans up after a failed wait with %s.%s(): a waiter that is not at that end of the queue deletes another, still blocked, thread\'s registration and leaves its own '
                                   'stale entry behind; the deleted thread is never notified again' % (f.q, tbl, m))
            # (b) a thread leaves _executingThreads only when it holds the lock in neither mode
            if tbl == '_executingThreads' and m == 'Remove':
                fields = set()
                for (gn, t) in gs:
                    if not t:
                        continue
                    for x in A.walk_through_locals(f, gn):
                        if x['k'] == 'MemberExpr' and x.get('n') in ('_readOnlyRecurseCount', '_readWriteRecurseCount'):
                            fields.add(x.get('n'))
                res.ob('ADMIT', f.where(c), '%s: leaving _executingThreads is guarded by both recursion counts' % f.q.split('::')[-1], len(fields) == 2, how=str(sorted(fields)), function=f.q,
                       key='ADMIT|%s|leave-both-zero' % f.q,
                       message='%s removes the thread from _executingThreads under a test of %s only: a thread that holds the lock in both modes and releases one of them is deregistered while it still '
                               'holds the other, so another thread can acquire the lock for writing during its critical section' % (f.q, sorted(fields)))
                # (c) and after leaving, the hand-off is unconditional (except: nobody can enter while the write count is still non-zero)
                nots = [x for x in f.walk() if x.is_call() and NOTIFY.search(x.get('q') or '')]
                esc = set()
                for blk in f.blocks.values():
                    if blk.cond is not None and blk.cond in f.nodes and len(blk.succ) == 2 and any(x['k'] == 'MemberExpr' and x.get('n') == '_totalReadWriteRecurseCount' for x in f.nodes[blk.cond].walk()):
                        esc.add((blk.b, 0))
                        esc.add((blk.b, 1))
                okn = bool(nots) and P.must_follow(f, c, nots, escapes=esc)[0]
                res.ob('HANDOFF', f.where(c), '%s: after leaving _executingThreads a notify routine runs on every path (only the write-count test may skip it)' % f.q.split('::')[-1], okn, function=f.q,
                       key='HANDOFF|%s|unconditional' % f.q,
                       message='%s makes the hand-off after leaving _executingThreads depend on a further condition: readers queued behind a writer that has since timed out are woken by nobody and sleep '
                               'on an idle lock' % f.q)
    # ---- round-1 addition: RESTORE — the upgrade path gives up the caller's read locks in order to queue as a writer; whatever the outcome of that attempt, they are taken again
    res.rule('RESTORE', 'LockReadWriteAux: after the read locks of the caller have been released for an upgrade, every path to a return re-acquires them (LockReadOnly), except the error return of the '
                        'release itself: a failed try/timed upgrade leaves the lock state as it was', floor=1)
    f = fx.fn1(RW + '::LockReadWriteAux')
    unl = [c for c in P.calls(f, r'::UnlockReadOnly$')]
    lro = [c for c in P.calls(f, r'::LockReadOnly$')]
    # the release loop: the UnlockReadOnly call(s) from which a recursive LockReadWriteAux is reachable
    rec = [c for c in P.calls(f, r'::LockReadWriteAux$')]
    rel = [u for u in unl if rec and C.can_reach(f, P.pos_of(f, u), set(P.pos_of(f, r) for r in rec))]
    if not rel or not lro:
        raise AnalysisBroken('RESTORE: release loop / restore loop of the upgrade path not found')
    for u in rel:
        holders = set(v['d'] for v in f.walk() if v['k'] == 'VarDecl' and v['ch'] and u in list(v['ch'][0].walk()))
        esc = set()
        for blk in f.blocks.values():
            if blk.cond is None or blk.cond not in f.nodes or len(blk.succ) != 2:
                continue
            n, pol = P.strip_not(f.nodes[blk.cond])
            st = P.is_status_test(n)
            if st and n.receiver() is not None and (A.strip_casts(n.receiver()).get('d') in holders or u in list(n.receiver().walk())):
                fail_when_n = (st == 'err')
                esc.add((blk.b, 0 if (pol == fail_when_n) else 1))
        # the restore loop has the same trip count as the release loop; "reaching the restore loop's test" stands for "the restore ran" (a loop that iterates zero times had nothing to restore)
        targets = list(lro)
        for l_ in lro:
            for a_ in l_.ancestors():
                if a_['k'] in ('ForStmt', 'WhileStmt') and a_.role('cond') is not None:
                    targets.append(a_.role('cond'))
                    break
        ok, path = P.must_follow(f, u, targets, escapes=esc)
        res.ob('RESTORE', f.where(u), 'the read locks released for the upgrade are re-acquired on every path to a return', ok, function=f.q, key='RESTORE|%s' % f.q,
               how='restore at line %s' % lro[0].get('l'),
               message='LockReadWriteAux: a path from the release of the caller\'s read locks (line %s) reaches a return without LockReadOnly(): when the upgrade attempt fails (TryLockReadWrite, '
                       'deadline) the caller has silently lost its read locks; its later UnlockReadOnly() fails and a writer can enter while the caller still believes it is reading' % u.get('l'))
    # ---- DEADLINE: "timed and try acquisitions return by their deadline with the lock state unchanged on failure"
    res.rule('DEADLINE', 'a ReaderWriterMutex method that takes a deadline passes that deadline to every call that can block (WaitCondition::Wait and the other deadline-taking methods of the class), '
                         'and gives up locks the caller already holds only after testing that the deadline is not zero (a try operation fails without touching the state)', floor=5)
    # deadline parameters: the 64-bit time-stamp parameter of the class's Lock* methods (LockReadOnly/LockReadWrite and their *Aux workers)
    D = {}          # function q -> parameter index
    for f in funcs:
        if re.search(r'ReaderWriterMutex::Lock\w+$', f.q):
            for (pi, prm) in enumerate(f.params):
                if f.ptype(prm).replace('const ', '').strip() in ('unsigned long', 'unsigned long long', 'uint64', 'muscle::uint64'):
                    D[f.q] = pi
                    break
    if len(D) < 3:
        raise AnalysisBroken('DEADLINE: only %d deadline-taking methods found' % len(D))
    n_dl = 0
    for f in sorted(funcs, key=lambda f: (f.file, f.line)):
        if f.q not in D:
            continue
        dp = f.params[D[f.q]]
        for c in f.walk():
            if not c.is_call():
                continue
            q = c.get('q') or ''
            k = 0 if q.endswith('WaitCondition::Wait') else D.get(q)
            if k is not None:
                n_dl += 1
                arg = c.args()[k] if k < len(c.args()) else None
                ok = arg is not None and any(x['k'] == 'DeclRefExpr' and x.get('d') == dp['d'] for x in arg.walk())
                res.ob('DEADLINE', f.where(c), '%s passes its deadline `%s` to %s' % (f.q.split('::')[-1], dp.get('n'), q.split('::')[-1]), ok, function=f.q, how='argument `%s`' % (arg.text(40) if arg is not None else '?'),
                       key='DEADLINE|%s|%s' % (f.q, q.split('::')[-1]),
                       message='%s(%s) calls %s(%s), which can block without regard to the caller\'s deadline: a timed acquisition that has already failed (or a try) waits for as long as other '
                               'threads hold or queue for the lock' % (f.q, dp.get('n'), q.split('::')[-1], arg.text(40) if arg is not None else ''))
            if re.search(r'ReaderWriterMutex::Unlock(ReadOnly|ReadWrite)(Aux)?$', q) and re.search(r'::Lock\w+$', f.q):
                n_dl += 1
                okz = False
                for (cn, t) in G.atoms_at(f, c):
                    z = A.zero_test(cn, t)
                    if z is not None and not z[1] and z[0].get('d') == dp['d']:
                        okz = True
                res.ob('DEADLINE', f.where(c), '%s gives up a held lock (%s) only when `%s` != 0' % (f.q.split('::')[-1], q.split('::')[-1], dp.get('n')), okz, function=f.q,
                       key='DEADLINE|%s|release-needs-nonzero-deadline:%s' % (f.q, q.split('::')[-1]),
                       message='%s can call %s() when its deadline is 0: a try-lock that cannot succeed releases locks the caller holds (and must then wait to get them back) instead of failing at once '
                               'with the state unchanged' % (f.q, q.split('::')[-1]))
    res.extra['deadline_methods'] = sorted(D)
    # (c) a try operation that fails leaves no trace: a return taken because the deadline is zero is not reachable from a registration in a waiting table (unless the entry is removed again)
    n_tr = 0
    for f in sorted(funcs, key=lambda f: (f.file, f.line)):
        if f.q not in D:
            continue
        dp = f.params[D[f.q]]
        regs = [c for c in f.walk() if c['k'] == 'CXXMemberCallExpr' and (c.get('q') or '') == RW + '::GetOrAllocateThreadState' and c.args() and (A.strip_casts(c.args()[0]).get('n') or '').startswith('_waiting')]
        for r in (x for x in f.walk() if x['k'] == 'ReturnStmt'):
            tryret = False
            for (cn, t) in G.atoms_at(f, r):
                z = A.zero_test(cn, t)
                if z is not None and z[1] and z[0].get('d') == dp['d']:
                    tryret = True
            if not tryret:
                continue
            n_tr += 1
            bad = None
            for c in regs:
                tbl = A.strip_casts(c.args()[0]).get('n')
                rms = set(p_ for p_ in (P.pos_of(f, x) for x in f.walk() if x['k'] == 'CXXMemberCallExpr' and (x.get('q') or '').endswith('::Remove') and x.receiver() is not None and A.strip_casts(x.receiver()).get('n') == tbl) if p_)
                pc, pr = P.pos_of(f, c), P.pos_of(f, r)
                if pc and pr and ((pc[0] == pr[0] and pc[1] < pr[1]) or C.can_reach(f, pc, set([pr]), avoid_points=rms)):
                    bad = c
            res.ob('DEADLINE', f.where(r), '%s: the try-lock failure return at line %s leaves no entry in a waiting table' % (f.q.split('::')[-1], r.get('l')), bad is None, function=f.q,
                   key='DEADLINE|%s|try-leaves-no-trace:%s' % (f.q, n_tr),
                   message='%s registers the calling thread in %s (line %s) and then returns B_TIMED_OUT because the deadline is zero, without removing the entry: a failed try-lock leaves a phantom '
                           'waiter behind, and with reader preference the next hand-off notifies only the (absent) readers while the real waiting writer sleeps for ever'
                           % (f.q, A.strip_casts(bad.args()[0]).get('n') if bad is not None else '', bad.get('l') if bad is not None else ''))
    if n_tr < 2:
        raise AnalysisBroken('DEADLINE: only %d zero-deadline returns found' % n_tr)
    # ---- COUNT-PAIR: the per-thread write count and the total write count move together
    res.rule('COUNT-PAIR', 'every statement that raises (lowers) a thread\'s _readWriteRecurseCount is accompanied, before the function returns, by one that raises (lowers) _totalReadWriteRecurseCount '
                           '(the reader admission test reads only the total)', floor=3)
    n_cp = 0
    for f in sorted(funcs, key=lambda f: (f.file, f.line)):
        def changes(name, this_member):
            out = {1: [], -1: []}
            for w in f.walk():
                tgt, sgn = None, 0
                if w['k'] == 'UnaryOperator' and w.get('op') in ('post++', 'pre++', 'post--', 'pre--'):
                    tgt, sgn = A.strip_casts(w['ch'][0]), (1 if '++' in w['op'] else -1)
                elif w['k'] == 'BinaryOperator' and w.get('op') == '=' and A.strip_casts(w['ch'][1])['k'] == 'BinaryOperator' and A.strip_casts(w['ch'][1]).get('op') in ('+', '-') and A.strip_casts(A.strip_casts(w['ch'][1])['ch'][1]).get('v') == 1:
                    tgt, sgn = A.strip_casts(w['ch'][0]), (1 if A.strip_casts(w['ch'][1])['op'] == '+' else -1)
                if tgt is not None and tgt['k'] == 'MemberExpr' and tgt.get('n') == name and A.is_this_member(tgt) == this_member:
                    out[sgn].append(w)
            return out
        per, tot = changes('_readWriteRecurseCount', False), changes('_totalReadWriteRecurseCount', True)
        for sgn in (1, -1):
            for w in per[sgn]:
                n_cp += 1
                ok = bool(tot[sgn]) and (P.must_follow(f, w, tot[sgn], escapes=P.escape_edges(f))[0] or P.must_precede(f, tot[sgn], w))
                res.ob('COUNT-PAIR', f.where(w), '%s line %s: the total write count follows the thread\'s write count (%+d)' % (f.q.split('::')[-1], w.get('l'), sgn), ok, function=f.q,
                       key='COUNT-PAIR|%s|%s:%d' % (f.q, '+' if sgn > 0 else '-', n_cp),
                       message='%s changes a thread\'s _readWriteRecurseCount (%+d) at line %s on a path that does not change _totalReadWriteRecurseCount likewise: IsOkayForReaderThreadsToExecuteNow() '
                               'reads only the total, so readers are admitted while that thread holds the write lock (or are kept out after it has released it)' % (f.q, sgn, w.get('l')))
    if n_cp < 3:
        raise AnalysisBroken('COUNT-PAIR: only %d changes of _readWriteRecurseCount found' % n_cp)
    # ---- CHRONO-UNIT: MUSCLE times are microseconds
    res.rule('CHRONO-UNIT', 'every std::chrono duration that WaitCondition builds from a run-time value is std::chrono::microseconds (all MUSCLE time values are in microseconds)', floor=1)
    n_cu = 0
    for g in sorted((g for g in fx.funcs.values() if g.full and g.q.startswith('muscle::WaitCondition::')), key=lambda g: (g.file, g.line)):
        for c in g.walk():
            if c['k'] in ('CXXConstructExpr', 'CXXTemporaryObjectExpr', 'CXXFunctionalCastExpr') and 'chrono::duration' in c.type() and c['ch'] and 'v' not in A.strip_casts(c['ch'][0]) \
                    and A.strip_casts(c['ch'][0])['k'] not in ('CXXConstructExpr', 'CXXTemporaryObjectExpr', 'MaterializeTemporaryExpr') and 'chrono' not in A.strip_casts(c['ch'][0]).type():
                n_cu += 1
                t_ = c.type().replace(' ', '')
                ok = 'ratio<1,1000000>' in t_
                res.ob('CHRONO-UNIT', g.where(c), '%s: duration built from `%s` is in microseconds' % (g.q.split('::')[-1], c['ch'][0].text(30)), ok, how=c.type(), function=g.q,
                       key='CHRONO-UNIT|%s|%s' % (g.q, c.get('l')),
                       message='%s turns the time value `%s` into a %s: MUSCLE deadlines are microseconds, so a timed wait lasts a different multiple of what was asked for and timed lock '
                               'acquisitions do not return by their deadline' % (g.q, c['ch'][0].text(30), c.type()))
    if n_cu < 1:
        raise AnalysisBroken('CHRONO-UNIT: no std::chrono duration built from a run-time value found in WaitCondition')
    # ---- WAKE-COVERAGE: whoever is waiting gets a wake-up, under either preference
    fn_ = fx.fn1(RW + '::NotifySomeWaitingThreads') if 'RW' in globals() else fx.fn1('muscle::ReaderWriterMutex::NotifySomeWaitingThreads')
    rets = [r for r in fn_.walk() if r['k'] == 'ReturnStmt']
    quiet = [r for r in rets if not any(x.is_call() and re.search(r'::Notify\w+$', x.get('q') or '') for x in r.walk())]
    if not rets or not quiet:
        raise AnalysisBroken('NOTIFY: NotifySomeWaitingThreads: no return without a notification found')
    badq = None
    for r in quiet:
        paths, complete = C.paths_between(fn_, (fn_.entry, -1), P.pos_of(fn_, r))
        if not complete:
            badq = badq or 'too many paths'
        for asg in paths:
            empty = set()
            for (cid, truth) in asg.items():
                for (cn, t) in G.atoms_of_cond(fn_, fn_.nodes[cid], truth):
                    em = A.emptiness(cn, t)
                    if em is not None and em[1] is True and em[0] is not None:
                        empty.add(A.strip_casts(em[0]).get('n'))
            if not (set(['_waitingWriterThreads', '_waitingReaderThreads']) <= empty):
                badq = badq or ', '.join('%s=%s' % (fn_.nodes[k].text(30), v) for k, v in asg.items())
    res.ob('NOTIFY', fn_.where(quiet[0]), 'NotifySomeWaitingThreads wakes nobody only when no reader and no writer is waiting', badq is None, function=fn_.q, key='NOTIFY|%s|wake-coverage' % fn_.q,
           message='NotifySomeWaitingThreads can return without notifying anybody although a thread is waiting (decisions: %s): with preferWriters=false and only writers parked, no release of the '
                   'lock ever wakes them — a writer waits forever on a free lock' % badq)
    res.explanation = ('Static decision of the reader/writer mutex\'s structural invariants: %d accesses to the state tables all under _stateMutex (must-hold lock sets, helper preconditions inferred); the '
                       'admission tests contain the exclusion conjuncts; each of the %d registrations of a new executing thread is dominated by the true edge of the matching test under the same guard object; '
                       'waits happen with the lock released, inside loops that re-test admission; every departure from the executing table or the waiter tables can reach a notify routine in the same critical '
                       'section. Exclusion and liveness over interleavings, writer preference and deadlines are not explored.' % (n_acc, n_reg))
    res.assumptions = ['MutexGuard/UnlockEarly semantics', 'WaitCondition delivers at least one wake-up per Notify (C11)']
    res.not_decided = ['mutual exclusion and liveness over thread interleavings', 'writer preference ordering', 'timed acquisition deadlines']
