"""C20  Pulse callbacks fire for every due node and never before their time.
GUARD (callback only when valid and due, with the scheduled time as argument; children descended only while due), RE-ASK (every invalidation is
followed by a reschedule request; a pulsed node is invalidated), AGGREGATE (single writer, min of own and first child), SINGLE-WRITER of the list links."""
import re
from msa import guards as G
from msa import pair as P
from msa import ast as A
from msa import cfg as C
from msa.facts import AnalysisBroken
from . import common

PN = 'muscle::PulseNode'
LINKS = ('_prevSibling', '_nextSibling', '_firstChild', '_lastChild', '_curList')


def this_field(n, name):
    n = A.strip_casts(n)
    return n['k'] == 'MemberExpr' and n.get('n') == name and A.is_this_member(n)


def writes_of(f, names):
    out = []
    for n in f.walk():
        if n['k'] in ('BinaryOperator', 'CompoundAssignOperator') and n.get('op') in A.ASSIGN_OPS:
            # chained assignments a = b = c: every lhs counts
            l = A.strip_casts(n['ch'][0])
            base = l
            while base['k'] == 'ArraySubscriptExpr':
                base = A.strip_casts(base['ch'][0])
            if base['k'] == 'MemberExpr' and base.get('n') in names:
                out.append((n, base))
    return out


def run(res, tier):
    units = ['util/PulseNode.cpp', 'reflector/ReflectServer.cpp'] if tier == 'quick' else __import__('msa.facts', fromlist=['x']).library_units()
    fx = common.load_units(res, units, fn_regex=r'.*' if tier != 'quick' else r'^muscle::(PulseNode|ReflectServer|PulseNodeManager)')
    pf = [f for f in fx.funcs.values() if f.full and f.cls == PN]
    if len(pf) < 8:
        raise AnalysisBroken('only %d PulseNode functions found' % len(pf))
    res.functions_analysed = len(pf)
    res.rule('GUARD', 'every dispatch of the virtual Pulse() from scheduler code is dominated by _myScheduledTimeValid and now >= _myScheduledTime and passes _myScheduledTime as the scheduled time; '
                      'a child\'s PulseAux is entered only while now >= child->_aggregatePulseTime', floor=2)
    n_disp = 0
    for f in sorted(pf, key=lambda f: f.line):
        for c in f.walk():
            if c['k'] == 'CXXMemberCallExpr' and c.get('q') == PN + '::Pulse' and c.get('virt'):
                n_disp += 1
                gs = G.atoms_at(f, c)
                valid = any(this_field(cn, '_myScheduledTimeValid') and t for (cn, t) in gs)
                due = any(op_ == '>=' and this_field(r_, '_myScheduledTime') and l_['k'] == 'DeclRefExpr' for (cn, t) in gs for (l_, op_, r_) in A.rel_forms(cn, t))
                arg_ok = False
                for x in c.args()[0].walk() if c.args() else []:
                    if x['k'] in ('CXXTemporaryObjectExpr', 'CXXConstructExpr') and (x.get('q') or '').startswith('muscle::PulseNode::PulseArgs') and len(x['ch']) >= 2:
                        arg_ok = this_field(x['ch'][1], '_myScheduledTime')
                res.ob('GUARD', f.where(c), 'Pulse() dispatch in %s: valid, due, scheduled time passed' % f.q.split('::')[-1], valid and due and arg_ok,
                       how='guards: _myScheduledTimeValid, now >= _myScheduledTime; PulseArgs(now, _myScheduledTime)', function=f.q, key='GUARD|%s|pulse' % f.q,
                       message='%s calls Pulse() %s: a callback can run before its requested time, for an invalidated request, or with the wrong scheduled time'
                               % (f.q, ', '.join(w for (w, b) in (('without the _myScheduledTimeValid test', valid), ('without now >= _myScheduledTime', due), ('without passing _myScheduledTime', arg_ok)) if not b)))
    if n_disp < 1:
        raise AnalysisBroken('no virtual Pulse() dispatch found in PulseNode')
    f = fx.fn1(PN + '::PulseAux')
    rec = [c for c in f.walk() if c['k'] == 'CXXMemberCallExpr' and c.get('q') == PN + '::PulseAux']
    okc = bool(rec)
    for c in rec:
        recv = A.strip_casts(c.receiver())
        g = False
        for (cn, t) in G.atoms_at(f, c):
            for (l_, op_, r) in A.rel_forms(cn, t):
                if op_ == '>=' and r['k'] == 'MemberExpr' and r.get('n') == '_aggregatePulseTime' and r['ch'] and A.strip_casts(r['ch'][0]).get('d') == recv.get('d'):
                    g = True
        okc = okc and g
    res.ob('GUARD', f.where(), 'PulseAux descends into a child only while now >= child->_aggregatePulseTime', okc, function=f.q, key='GUARD|%s|child' % f.q,
           message='PulseAux can descend into a child whose aggregate pulse time lies in the future (or no longer descends at all)')
    # ------------------------------------------------------------------ RE-ASK
    res.rule('RE-ASK', 'a pulsed node is invalidated; every `_myScheduledTimeValid = false` on a node that keeps its parent is followed by _parent->ReschedulePulseChild(this, NEEDSRECALC); '
                       'GetPulseTimeAux re-asks exactly the invalid nodes', floor=4)
    needs = fx.enum_const('LINKED_LIST_NEEDSRECALC')
    for f in sorted(pf, key=lambda f: f.line):
        if f.q.endswith('(ctor)'):
            continue
        for (w, base) in writes_of(f, ('_myScheduledTimeValid',)):
            if w['ch'][1].get('v') != 0:
                continue
            if not A.is_this_member(base):
                res.ob('RE-ASK', f.where(w), 'invalidation of another node in %s (detached child)' % f.q.split('::')[-1], f.q.endswith('::RemovePulseChild'), nontrivial=False, function=f.q,
                       how='frozen exception: RemovePulseChild clears the flag of the child it has just unlinked (no parent left to notify)', key='RE-ASK|%s|foreign-invalidate' % f.q,
                       message='%s clears _myScheduledTimeValid of another node without being the unlink routine' % f.q)
                continue
            rs = [c for c in P.calls(f, r'::ReschedulePulseChild$') if len(c.args()) >= 2 and A.strip_casts(c.args()[0])['k'] == 'CXXThisExpr' and c.args()[1].get('v') == needs
                  and c.receiver() is not None and (this_field(c.receiver(), '_parent') or this_field(G.local_init(f, c.receiver()), '_parent'))]     # `_parent`, or a const local copy of it
            ok, path = P.must_follow(f, w, rs, escapes=P.escape_edges(f)) if rs else (False, None)
            res.ob('RE-ASK', f.where(w), '`_myScheduledTimeValid = false` in %s is followed by _parent->ReschedulePulseChild(this, NEEDSRECALC)' % f.q.split('::')[-1], ok, function=f.q,
                   how='reschedule request at line %s on every path with a parent' % (rs[0].get('l') if rs else '?'), key='RE-ASK|%s|reschedule' % f.q,
                   message='%s invalidates the node\'s pulse time but a path returns without asking the parent to recalculate: the node is never asked for its next time and its callback stops firing' % f.q)
    f = fx.fn1(PN + '::PulseAux')
    pulses = [c for c in f.walk() if c['k'] == 'CXXMemberCallExpr' and c.get('q') == PN + '::Pulse']
    inval = [w for (w, b) in writes_of(f, ('_myScheduledTimeValid',)) if w['ch'][1].get('v') == 0 and A.is_this_member(b)]
    ok = bool(pulses) and bool(inval) and all(P.must_follow(f, p, inval)[0] for p in pulses)
    res.ob('RE-ASK', f.where(), 'PulseAux invalidates the node after its Pulse() callback ran', ok, function=f.q, key='RE-ASK|%s|after-pulse' % f.q,
           message='after running Pulse() the node stays valid: its callback fires again on every later sweep without being asked for a new time')
    f = fx.fn1(PN + '::GetPulseTimeAux')
    asks = [c for c in f.walk() if c['k'] == 'CXXMemberCallExpr' and c.get('q') == PN + '::GetPulseTime']
    ok = bool(asks)
    for c in asks:
        gs = [(f.nodes[x], t) for (x, t) in C.guards_of_block(f, P.pos_of(f, c)[0])]
        g = False
        for (cn, t) in gs:
            n, pol = P.strip_not(cn, t)
            if this_field(n, '_myScheduledTimeValid') and not pol:
                g = True
        # the result is stored into _myScheduledTime and the flag is set
        stored = c.parent is not None and any(this_field(w['ch'][0], '_myScheduledTime') and c in list(w['ch'][1].walk()) for (w, b) in writes_of(f, ('_myScheduledTime',)))
        setv = any(w['ch'][1].get('v') == 1 for (w, b) in writes_of(f, ('_myScheduledTimeValid',)))
        ok = ok and g and stored and setv
    res.ob('RE-ASK', f.where(), 'GetPulseTimeAux asks GetPulseTime() exactly when the node is invalid, stores the answer and marks it valid', ok, function=f.q, key='RE-ASK|%s|ask' % f.q,
           message='GetPulseTimeAux no longer re-asks an invalidated node (or no longer stores/validates the answer)')
    # RE-ASK (stable on return): user callbacks run inside GetPulseTimeAux — the node's own GetPulseTime() and, through the recursive calls, those of its descendants — may call
    # InvalidatePulseTime() on THIS node.  The node must therefore look at its own flag again after the last such call, or it returns with a request it never asked about
    # (for the root there is no parent list to be put on: the wake-up time reported for this pass ignores the request).
    selftests = [x for x in f.walk() if this_field(x, '_myScheduledTimeValid') and not any(a['k'] == 'BinaryOperator' and a.get('op') == '=' and a['ch'][0] is x for a in [x.parent] if a is not None)]
    cbs = [c for c in f.walk() if c['k'] == 'CXXMemberCallExpr' and c.get('q') in (PN + '::GetPulseTime', PN + '::GetPulseTimeAux')]
    for c in cbs:
        what = 'own GetPulseTime()' if c.get('q') == PN + '::GetPulseTime' else 'a child\'s GetPulseTimeAux()'
        okr, path = P.must_follow(f, c, selftests) if selftests else (False, None)
        res.ob('RE-ASK', f.where(c), 'GetPulseTimeAux: after %s (a user callback) the node re-examines its own valid flag before it returns' % what, okr, function=f.q,
               key='RE-ASK|%s|stable-on-return:%s' % (f.q, 'own' if c.get('q') == PN + '::GetPulseTime' else 'child'),
               message='GetPulseTimeAux returns after %s without looking at _myScheduledTimeValid again: a callback that invalidates this node (e.g. a child asking its parent to wake up earlier) '
                       'leaves the request unasked, and for a root node the wake-up time reported for this pass ignores it' % what)
    # ------------------------------------------------------------------ AGGREGATE
    res.rule('AGGREGATE', '_aggregatePulseTime is written only in GetPulseTimeAux (and the constructor) as muscleMin(_myScheduledTime, GetFirstScheduledChildTime()); the caller\'s minimum is lowered to it', floor=2)
    aw = []
    for f in pf:
        for (w, b) in writes_of(f, ('_aggregatePulseTime',)):
            aw.append((f, w))
    from msa import ip as IP_ag
    gpa = [f for f in pf if f.q.endswith('::GetPulseTimeAux')]
    ag_scope = set(h_.id for f0 in gpa for h_ in IP_ag.scope(fx, f0, r'^muscle::PulseNode::', single_caller=True))
    outside = [(f, w) for (f, w) in aw if not (f.q.endswith('::GetPulseTimeAux') or f.q.endswith('(ctor)') or f.id in ag_scope)]
    res.ob('AGGREGATE', 'util/PulseNode.cpp', '_aggregatePulseTime has a single writer (GetPulseTimeAux)', not outside and bool(aw), function=PN + '::_aggregatePulseTime',
           how='%d write(s), all in GetPulseTimeAux' % len(aw), key='AGGREGATE|%s|writer' % PN,
           message='_aggregatePulseTime is also written in %s: the sorted child list it keys is no longer maintained' % (outside[0][0].q if outside else '?'))
    f = fx.fn1(PN + '::GetPulseTimeAux')
    f_top = f
    # the tail that recomputes the aggregate may have been split off into a private member that gets the caller's minimum by reference (msa/ip.py): it is judged there
    for (g, w) in aw:
        if g.id in ag_scope and g is not f_top:
            f = g
    ok = False
    for (g, w) in aw:
        if g is f:
            mm = A.min_max(G.local_init(f, w['ch'][1]))
            if mm is not None and mm[0] == 'min':
                a = mm[1]
                own = any(this_field(x, '_myScheduledTime') for x in a)
                kid = any(x.is_call() and (x.get('q') or '').endswith('::GetFirstScheduledChildTime') for y in a for x in A.walk_through_locals(f, y))
                ok = own and kid
    res.ob('AGGREGATE', f.where(), '_aggregatePulseTime = muscleMin(_myScheduledTime, GetFirstScheduledChildTime())', ok, function=f.q, key='AGGREGATE|%s|min' % f.q,
           message='the aggregate pulse time is no longer the minimum of the node\'s own time and its earliest scheduled child: the root reports a wake-up time later than some node requested')
    # the caller's running minimum: the `uint64 &` parameter
    minp = next((p_['d'] for p_ in f.params if f.ptype(p_).replace(' ', '').endswith('&') and 'int' in f.ptype(p_)), f.params[-1]['d'])
    low = [n for n in f.walk() if n['k'] == 'BinaryOperator' and n.get('op') == '=' and A.strip_casts(n['ch'][0]).get('d') == minp and this_field(n['ch'][1], '_aggregatePulseTime')]
    okm = False
    for n in low:
        gs = [(f.nodes[x], t) for (x, t) in C.guards_of_block(f, P.pos_of(f, n)[0])]
        for (cn, t) in gs:
            if any(op in ('<', '<=') and this_field(l, '_aggregatePulseTime') and r.get('d') == minp for (l, op, r) in A.rel_forms(cn, t)):
                okm = True
    res.ob('AGGREGATE', f.where(), 'GetPulseTimeAux lowers the caller\'s minimum to _aggregatePulseTime when it is smaller', okm, function=f.q, key='AGGREGATE|%s|propagate' % f.q,
           message='GetPulseTimeAux no longer propagates its aggregate time into the caller\'s minimum')
    # ------------------------------------------------------------------ SINGLE-WRITER
    res.rule('SINGLE-WRITER', 'the sibling/child list links and _curList are written only in ReschedulePulseChild and the constructor', floor=1)
    bad = []
    nsc = 0
    # allowed writers: the list-maintenance routine, the constructor, and PulseNode helpers that are called ONLY from allowed writers (a block of ReschedulePulseChild moved into a private helper)
    allowed = set([PN + '::ReschedulePulseChild', PN + '::(ctor)'])
    callers = {}
    for f in fx.funcs.values():
        if f.full:
            for c in f.walk():
                if c.is_call() and (c.get('q') or '').startswith(PN + '::'):
                    callers.setdefault(c['q'], set()).add(f.q)
    grew = True
    while grew:
        grew = False
        for q_, cs in callers.items():
            if q_ not in allowed and cs and cs <= allowed:
                allowed.add(q_)
                grew = True
    for f in fx.funcs.values():
        if not f.full:
            continue
        nsc += 1
        if f.q in allowed:
            continue
        for (w, b) in writes_of(f, LINKS):
            if b.get('q', '').startswith(PN + '::'):
                bad.append((f.q, f.where(w), b.get('n')))
    res.ob('SINGLE-WRITER', 'util/PulseNode.h', 'only ReschedulePulseChild and the constructor write %s (%d functions scanned)' % (', '.join(LINKS), nsc), not bad, function=PN,
           how='0 other writers', key='SINGLE-WRITER|%s|%s' % (PN, bad[0][0] if bad else ''),
           message='%s writes PulseNode::%s at %s outside the list-maintenance routine' % (bad[0][0], bad[0][2], bad[0][1]) if bad else '')
    # ---- round-1 additions
    res.rule('LINKS', 'PulseNode: no sibling/child link value loaded before a callback (PulseAux/Pulse, which may re-link, detach or destroy siblings) is used after it; ordering comparisons between two '
                      'nodes compare the same field on both sides; RemovePulseChild decides "was this the head of the schedule?" before it unlinks the child', floor=3)
    LINKF = ('_nextSibling', '_prevSibling', '_firstChild', '_lastChild')
    n_l = 0
    for f in sorted((f for f in fx.funcs.values() if f.full and f.cls == PN), key=lambda f: f.line):
        cbs = [c for c in f.walk() if c.is_call() and (c.get('q') or '') in (PN + '::PulseAux', PN + '::Pulse')]
        if not cbs:
            continue
        n_l += 1
        bad = None
        for v in f.walk():
            d = None
            src = None
            if v['k'] == 'VarDecl' and v['ch'] and v.type().rstrip().endswith('*'):
                d, src = v['d'], v['ch'][0]
            elif v['k'] == 'BinaryOperator' and v.get('op') == '=' and A.strip_casts(v['ch'][0])['k'] == 'DeclRefExpr' and 'd' in A.strip_casts(v['ch'][0]):
                d, src = A.strip_casts(v['ch'][0])['d'], v['ch'][1]
            if d is None or not any(x['k'] == 'MemberExpr' and x.get('n') in LINKF for x in src.walk()):
                continue
            vp = P.pos_of(f, v)
            # other definitions of the same local kill the value
            defs = set()
            for w in f.walk():
                if w is not v and ((w['k'] == 'BinaryOperator' and w.get('op') == '=' and A.strip_casts(w['ch'][0]).get('d') == d) or (w['k'] == 'VarDecl' and w.get('d') == d)):
                    wp = P.pos_of(f, w)
                    if wp:
                        defs.add(wp)
            for cb in cbs:
                cp = P.pos_of(f, cb)
                if not (vp and cp and ((vp[0] == cp[0] and vp[1] < cp[1]) or C.can_reach(f, vp, set([cp]), avoid_points=defs))):
                    continue
                # the call's own receiver/argument evaluation is "before" the call; uses strictly after it count
                for u in f.walk():
                    if u['k'] == 'DeclRefExpr' and u.get('d') == d and not any(a is cb for a in u.ancestors()):
                        up = P.pos_of(f, u)
                        par = u.parent
                        if par is not None and par['k'] == 'BinaryOperator' and par.get('op') == '=' and par['ch'][0] is u:
                            continue
                        kills = set(defs) | set([vp])       # after the callback the value is dead as soon as the local is loaded afresh (also by this very statement, next time round)
                        if up and ((cp[0] == up[0] and cp[1] < up[1] and not any(k_[0] == cp[0] and cp[1] < k_[1] < up[1] for k_ in kills)) or
                                   (not (cp[0] == up[0] and cp[1] < up[1]) and C.can_reach(f, cp, set([up]), avoid_points=kills))):
                            bad = (v, cb, u)
        res.ob('LINKS', f.where(), '%s: no link value loaded before a Pulse callback is used after it' % f.q.split('::')[-1], bad is None, function=f.q, key='LINKS|%s|stale-link' % f.q,
               message='%s: the link loaded at line %s is used at line %s after the callback at line %s: a Pulse() callback may reschedule, detach or delete the sibling it points to, so the walk skips due '
                       'siblings (or touches a freed node)' % (f.q, bad[0].get('l') if bad else '', bad[2].get('l') if bad else '', bad[1].get('l') if bad else ''))
    if n_l < 1:
        raise AnalysisBroken('LINKS: no function with a Pulse callback found')
    f = fx.fn1(PN + '::ReschedulePulseChild')
    TIMEF = ('_aggregatePulseTime', '_myScheduledTime')
    n_cmp = 0
    for n in f.walk():
        if n['k'] == 'BinaryOperator' and n.get('op') in ('<', '<=', '>', '>='):
            l, r = A.strip_casts(n['ch'][0]), A.strip_casts(n['ch'][1])
            if l['k'] == 'MemberExpr' and r['k'] == 'MemberExpr' and l.get('n') in TIMEF and r.get('n') in TIMEF and not A.is_this_member(l) and not A.is_this_member(r):
                n_cmp += 1
                res.ob('LINKS', f.where(n), 'ReschedulePulseChild orders two nodes by the same field (`%s`)' % n.text(60), l.get('n') == r.get('n'), function=f.q, key='LINKS|%s|same-field:%s' % (f.q, n.get('op')),
                       message='ReschedulePulseChild compares `%s`: the sibling list is sorted by _aggregatePulseTime (own time and descendants), so a node whose own time is late but which has an early '
                               'descendant is filed too late; the parent\'s aggregate, taken from the list head, then misses that descendant' % n.text(70))
    if n_cmp < 2:
        raise AnalysisBroken('LINKS: %d ordering comparisons found in ReschedulePulseChild' % n_cmp)
    f = fx.fn1(PN + '::RemovePulseChild')
    unl = [c for c in f.walk() if c.is_call() and (c.get('q') or '') == PN + '::ReschedulePulseChild' and c.args() and len(c.args()) >= 2 and A.strip_casts(c.args()[1]).get('v') == -1]
    heads = [n for n in f.walk() if n['k'] == 'BinaryOperator' and n.get('op') == '==' and any(x['k'] == 'MemberExpr' and x.get('n') == '_firstChild' for x in n.walk())]
    if not unl or not heads:
        raise AnalysisBroken('LINKS: RemovePulseChild: unlink call / head-of-schedule test not found')
    bad = False
    for h in heads:
        hp = P.pos_of(f, h)
        for u in unl:
            up = P.pos_of(f, u)
            if hp and up and ((up[0] == hp[0] and up[1] < hp[1]) or C.can_reach(f, up, set([hp]))):
                bad = True
    res.ob('LINKS', f.where(heads[0]), 'RemovePulseChild tests `child == _firstChild[SCHEDULED]` before unlinking the child', not bad, function=f.q, key='LINKS|%s|head-test-first' % f.q,
           message='RemovePulseChild evaluates "was the child the head of the schedule?" after ReschedulePulseChild(child, -1) has unlinked it, so the answer is always no: the node never asks its own parent '
                   'to recalculate it and keeps advertising the removed child\'s (too early) time')
    # ---- round-2 additions
    f = fx.fn1(PN + '::ClearPulseChildren')
    nlists = fx.enum_const('NUM_LINKED_LISTS')
    idx = set()
    loops_all = False
    for n in f.walk():
        if n['k'] == 'ArraySubscriptExpr' and A.strip_casts(n['ch'][0]).get('n') in ('_firstChild', '_lastChild'):
            i_ = A.strip_casts(n['ch'][1])
            if 'v' in i_:
                idx.add(i_['v'])
            elif i_['k'] == 'DeclRefExpr':
                for l_ in f.walk():
                    if l_['k'] != 'ForStmt':
                        continue
                    # ascending `i < NUM_LINKED_LISTS` from 0, or descending from NUM_LINKED_LISTS-1 down to 0: the loop header (init or test) names the list count
                    hdr = [y for part in (l_.role('init'), l_.role('cond')) if part is not None for y in part.walk()]
                    if any(y.get('n') == 'NUM_LINKED_LISTS' or (y['k'] == 'DeclRefExpr' and y.get('v') == nlists) for y in hdr) and any(y.get('v') == 0 for y in hdr):
                        loops_all = True
    okc = loops_all or (nlists is not None and idx >= set(range(nlists)))
    res.ob('LINKS', f.where(), 'ClearPulseChildren empties all %s child lists' % nlists, okc, how='loop over all lists' if loops_all else 'indices %s' % sorted(idx), function=f.q, key='LINKS|%s|all-lists' % f.q,
           message='ClearPulseChildren empties only the lists %s of %s: children awaiting recalculation (just attached, invalidated or pulsed) stay attached, keep driving the wake-up time and, after the parent '
                   'is destroyed, hold a dangling _parent' % (sorted(idx), nlists))
    f = fx.fn1(PN + '::GetPulseTimeAux')
    own = [c for c in f.walk() if c.is_call() and (c.get('q') or '') == PN + '::GetPulseTime']
    kids = [c for c in f.walk() if c.is_call() and (c.get('q') or '') == PN + '::GetPulseTimeAux']
    if not own or not kids:
        raise AnalysisBroken('RE-ASK: GetPulseTimeAux: own GetPulseTime() / recursive calls not found')
    # after the node's own GetPulseTime() (a user callback that may invalidate or attach children) the pending list is examined again on every path to the exit: the test of the loop
    # that drains the children follows the callback.  (The callback may be asked again later, in a re-ask loop; what matters is that a drain test follows every ask.)
    drain_tests = []
    for (h_, body_) in C.natural_loops(f):
        if any(P.pos_of(f, k_) and P.pos_of(f, k_)[0] in body_ for k_ in kids) and not any(P.pos_of(f, o_) and P.pos_of(f, o_)[0] in body_ for o_ in own):
            cnd = f.blocks[h_].cond
            if cnd is not None and cnd in f.nodes:
                drain_tests.append(f.nodes[cnd])
    # the same test spelled a second time (`if (firstNeedy) while (firstNeedy) …`) is a drain test too
    keys_ = set(A.render_key(A.bool_polarity(t_, True)[0]) for t_ in drain_tests)
    for blk_ in f.blocks.values():
        if blk_.cond is not None and blk_.cond in f.nodes and A.render_key(A.bool_polarity(f.nodes[blk_.cond], True)[0]) in keys_ and f.nodes[blk_.cond] not in drain_tests:
            drain_tests.append(f.nodes[blk_.cond])
    bad = not drain_tests or not all(P.must_follow(f, o_, drain_tests)[0] for o_ in own)
    res.ob('RE-ASK', f.where(own[0]), 'GetPulseTimeAux asks the node itself before it drains the children awaiting recalculation', not bad, function=f.q, key='RE-ASK|%s|self-before-children' % f.q,
           message='GetPulseTimeAux drains the pending children before calling the node\'s own GetPulseTime(): a child that the callback invalidates or attaches becomes pending after the list was emptied, '
                   'its time never reaches the root and it is never pulsed')
    # ---- ROOTS: the server drives every root pulse node it owns (factories, sessions, gateways, policies, itself) on every pass, whatever their I/O state
    res.rule('ROOTS', 'every CallGetPulseTimeAux / CallPulseAux in ReflectServer is control dependent only on the existence of the node it is called for (non-null pointer / Ref, non-empty '
                      'container, iterator has data), never on I/O readiness or per-object state', floor=8)
    n_rt = 0
    for g in sorted((g for g in fx.funcs.values() if g.full and g.q.startswith('muscle::ReflectServer::')), key=lambda g: (g.file, g.line)):
        for c in g.walk():
            if not (c.is_call() and (c.get('q') or '').split('::')[-1] in ('CallGetPulseTimeAux', 'CallPulseAux')):
                continue
            n_rt += 1
            bad = None
            for (a, t) in G.atoms_at(g, c):
                a0 = A.strip_casts(a)
                exist = False
                if a0.is_call() and (a0.get('q') or '').split('::')[-1] in ('HasItems', 'HasData', 'IsEmpty', 'operator()', 'GetItemPointer'):
                    exist = True
                elif a0['k'] in ('DeclRefExpr', 'MemberExpr') and (a0.type().rstrip().endswith('*') or 'Ref' in a0.type()):
                    exist = True
                elif any(l_['k'] in ('DeclRefExpr', 'MemberExpr') and l_.type().rstrip().endswith('*') and (r_['k'] in ('GNUNullExpr', 'CXXNullPtrLiteralExpr') or r_.get('v') == 0) for (l_, op_, r_) in A.rel_forms(a0, True) if op_ in ('==', '!=')):
                    exist = True
                if not exist:
                    bad = bad or a0
            res.ob('ROOTS', g.where(c), '%s line %s: %s(%s) depends only on the existence of the node' % (g.q.split('::')[-1], c.get('l'), (c.get('q') or '').split('::')[-1], c.args()[0].text(30) if c.args() else ''),
                   bad is None, function=g.q, key='ROOTS|%s|%s:%s' % (g.q, (c.get('q') or '').split('::')[-1], A.strip_casts(c.args()[0]).text(30) if c.args() else ''),
                   message='%s calls %s(%s) only under `%s`: a pulse node the server owns is not asked for its time / not pulsed while that condition is false, so its requested time is missing from the '
                           'server\'s wake-up time and its callback does not run' % (g.q, (c.get('q') or '').split('::')[-1], c.args()[0].text(30) if c.args() else '', bad.text(50) if bad is not None else ''))
    if n_rt < 8:
        raise AnalysisBroken('ROOTS: only %d pulse-driving calls found in ReflectServer' % n_rt)
    # ---- INVALIDATE-ALWAYS: an invalidation is never swallowed because of where the node currently is
    fi = fx.fn1(PN + '::InvalidatePulseTime')
    clr = [w for w in fi.walk() if w['k'] == 'BinaryOperator' and w.get('op') == '=' and A.strip_casts(w['ch'][0]).get('n') == '_myScheduledTimeValid' and A.strip_casts(w['ch'][1]).get('v') in (0, False)]
    if not clr:
        raise AnalysisBroken('RE-ASK: InvalidatePulseTime: the store _myScheduledTimeValid = false was not found')
    badc = None
    for w in clr:
        for (cn, t) in G.atoms_at(fi, w):
            core, pol = A.bool_polarity(cn, t)
            if not (core['k'] == 'MemberExpr' and core.get('n') == '_myScheduledTimeValid' and pol is True):
                badc = badc or core
    res.ob('RE-ASK', fi.where(clr[0]), 'InvalidatePulseTime clears the valid flag whenever it was set (the store depends on nothing else)', badc is None, function=fi.q, key='RE-ASK|%s|invalidate-always' % fi.q,
           message='InvalidatePulseTime() clears _myScheduledTimeValid only under `%s` as well: a node that is already queued for recalculation because of a DESCENDANT (its own time still valid) and then '
                   'changes its own time keeps its valid flag, GetPulseTime() is never called on it again, and with clearPrevResult its scheduled time has already been wiped — the node\'s timer is '
                   'cancelled for good and the root reports a wake-up time that is not the minimum' % (badc.text(50) if badc is not None else ''))
    # ---- LINKS unlink-complete: taking a child out of a list updates both ends of the list
    f = fx.fn1(PN + '::ReschedulePulseChild')
    from msa import ip as IP

    def _resets(g):
        return [w for w in g.walk() if w['k'] == 'BinaryOperator' and w.get('op') == '=' and A.strip_casts(w['ch'][0])['k'] == 'MemberExpr' and A.strip_casts(w['ch'][0]).get('n') in LINKF
                and not A.is_this_member(A.strip_casts(w['ch'][0])) and (A.strip_casts(w['ch'][1])['k'] in ('GNUNullExpr', 'CXXNullPtrLiteralExpr') or A.strip_casts(w['ch'][1]).get('v') == 0
                                                                      or (A.strip_casts(w['ch'][1])['k'] == 'BinaryOperator' and A.strip_casts(w['ch'][1]).get('op') == '='))]
    # the unlink may sit in ReschedulePulseChild itself or in a private helper it calls
    sc = IP.scope(fx, f, r'^muscle::PulseNode::')
    per = [(g, _resets(g)) for g in sc]
    resets = [r_ for (g, rs) in per for r_ in rs]
    if not resets:
        raise AnalysisBroken('LINKS: the reset of the unlinked child\'s sibling pointers was not found in ReschedulePulseChild (or the PulseNode helpers it calls)')
    rf = [g for (g, rs) in per if rs][0]
    ends = {'_firstChild': False, '_lastChild': False}
    for (g, rs) in per:
        for w in g.walk():
            if w['k'] == 'BinaryOperator' and w.get('op') == '=':
                l_ = A.strip_casts(w['ch'][0])
                if l_['k'] == 'ArraySubscriptExpr' and A.strip_casts(l_['ch'][0]).get('n') in ends and any(x['k'] == 'MemberExpr' and x.get('n') in LINKF for x in w['ch'][1].walk()):
                    pw = P.pos_of(g, w)
                    # the repair reads the child's links, so within one function it has to come before they are cleared; a repair in a different function of the scope is accepted as it is
                    if not rs or any(pw and P.pos_of(g, r_) and (C.can_reach(g, pw, set([P.pos_of(g, r_)])) or (pw[0] == P.pos_of(g, r_)[0] and pw[1] < P.pos_of(g, r_)[1])) for r_ in rs):
                        ends[A.strip_casts(l_['ch'][0])['n']] = True
    res.ob('LINKS', rf.where(resets[0]), 'ReschedulePulseChild: unlinking a child repairs both _firstChild[list] and _lastChild[list] from the child\'s sibling links', all(ends.values()), function=f.q,
           key='LINKS|%s|unlink-complete' % f.q, how=str(ends),
           message='ReschedulePulseChild takes a child out of its list without repairing %s from the child\'s sibling pointer: when the child was at that end the list keeps pointing at a node that is no '
                   'longer in it — the next insertion there links behind the departed node and becomes unreachable, so it is never asked or pulsed'
                   % ' and '.join(k for k, v in ends.items() if not v))
    # ---------------------------------------------------------------------------------- round 5: DETACH-FIRST, REQUEST-VERBATIM
    res.rule('DETACH-FIRST', 'a PulseNode function that points another node\'s _parent at a node first lets the old parent detach it (RemovePulseChild tests `child->_parent == this`, so it '
                             'does nothing once _parent was overwritten), the null-old-parent edge excepted', floor=1)
    n5 = 0
    for f in sorted(pf, key=lambda f: f.line):
        if f.q.split('::')[-1] in ('(ctor)', '(dtor)', 'RemovePulseChild'):
            continue
        for (w, base) in writes_of(f, ('_parent',)):
            if A.is_this_member(base):
                continue
            rhs = A.strip_casts(w['ch'][1])
            if rhs.get('v') == 0 or rhs['k'] in ('GNUNullExpr', 'CXXNullPtrLiteralExpr'):
                continue
            n5 += 1
            # the detach call itself, or the call of a PulseNode helper that makes it on every path on which the old parent exists (msa/ip.py)
            from msa import ip as IP5
            det = IP5.must_sites(fx, f, lambda c_: c_.is_call() and (c_.get('q') or '').endswith('::RemovePulseChild'), '^' + PN + '::(?!RemovePulseChild$)',
                                 escapes=lambda g_: P.escape_edges(g_, status=False, null=True))
            ok = bool(det) and P.must_precede(f, det, w, escapes=P.escape_edges(f, status=False, null=True))
            res.ob('DETACH-FIRST', f.where(w), '%s: the old parent detaches the child before its _parent is overwritten' % f.q.split('::')[-1], ok, function=f.q, key='DETACH-FIRST|%s' % f.q,
                   message='%s overwrites the child\'s _parent before the old parent\'s RemovePulseChild() ran (or without it): RemovePulseChild() tests `child->_parent == this` and now does nothing, '
                           'so the old parent keeps list-head pointers to a node that lives in another parent\'s lists — its PulseAux loop re-reads that foreign node forever, and its other children '
                           'never fire' % f.q)
    if n5 < 1:
        raise AnalysisBroken('DETACH-FIRST: no re-parenting write found in PulseNode')
    res.rule('REQUEST-VERBATIM', '_myScheduledTime holds what GetPulseTime() asked for: every value assigned to it contains the GetPulseTime() call or is a constant, never the sweep time', floor=1)
    n5 = 0
    for f in sorted(pf, key=lambda f: f.line):
        if f.q.split('::')[-1] in ('(ctor)',):
            continue
        pds = set(p_['d'] for p_ in f.params if p_.get('d') is not None)
        for (w, base) in writes_of(f, ('_myScheduledTime',)):
            if not A.is_this_member(base):
                continue
            n5 += 1
            rhs = list(A.walk_through_locals(f, w['ch'][1]))
            asks = any(x.is_call() and (x.get('q') or '').endswith('::GetPulseTime') for x in rhs)
            from_param = any(x['k'] == 'DeclRefExpr' and x.get('d') in pds for x in rhs)
            ok = asks or not from_param
            res.ob('REQUEST-VERBATIM', f.where(w), '%s stores the requested time unmodified' % f.q.split('::')[-1], ok, function=f.q, key='REQUEST-VERBATIM|%s|%d' % (f.q, n5),
                   message='%s assigns _myScheduledTime from its own parameter instead of from GetPulseTime(): the node is pulsed, but Pulse() is told a scheduled time the node never asked for '
                           '(GetScheduledTime() and the previous-time argument of the next GetPulseTime() are wrong), so a periodic timer computed as scheduled + period drifts off its grid and '
                           'skips the catch-up pulses it is documented to get' % f.q)
    if n5 < 1:
        raise AnalysisBroken('REQUEST-VERBATIM: no assignment to _myScheduledTime found')
    res.explanation = ('Static decision of the scheduler\'s structural invariants on util/PulseNode.cpp: the virtual Pulse() is dispatched only under (valid AND now >= scheduled time) with the scheduled time as '
                       'argument; children are descended only while due; a pulsed node is invalidated and every invalidation asks the parent for a recalculation; the aggregate time has one writer and is the '
                       'min of own and earliest child; the list links have one writer. The schedule over histories and re-entrancy from callbacks are not decided.')
    res.assumptions = ['ReschedulePulseChild keeps the SCHEDULED list sorted by _aggregatePulseTime (its loop is not verified here)']
    res.not_decided = ['that exactly the due nodes fire for every tree shape and history', 'attach/detach from inside callbacks']
