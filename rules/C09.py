"""C09  Hashtable behaves as an ordered map and its iterators survive any mutation — NARROW: four structural necessary conditions only.
Decided on a forced full instantiation (engine/instantiate_ht.cpp: HashtableBase/HashtableMid/Hashtable/HashtableIterator<int32,String>):
RETIRE-UNLINKS  an entry goes to the free list only after RemoveIterationEntry() was called for it (the one place that moves live iterators off a dying entry)
MOVE-PAIRS      a RemoveIterationEntry() that is not part of a removal is followed on every path by an InsertIterationEntry*() of the same entry
PUT-LINKS       every entry handed out by PutAuxAux() is handed to InsertIterationEntry*() (an entry in a bucket chain is also in the iteration list)
ITER-LIFECYCLE  iterator constructors that take a table register with it; the destructor and every re-targeting of _owner unregister first and register afterwards
WIDTH-AGREE     all dispatches on the table's index width agree on which entry type each width constant selects
The refinement of an ideal ordered map over operation histories is NOT decided."""
import re
from msa import ast as A
from msa import cfg as C
from msa import pair as P
from msa import guards as G
from msa.facts import AnalysisBroken
from . import common
import os

HB = 'muscle::HashtableBase'
INST = os.path.join(os.path.dirname(common.INSTANTIATE), 'instantiate_ht.cpp')


def _uniq(funcs):
    """one representative per (qualified name, line): the same template body instantiated twice has the same shape"""
    seen, out = set(), []
    for f in sorted(funcs, key=lambda f: (f.file, f.line, f.q)):
        if (f.q, f.file, f.line) in seen:
            continue
        seen.add((f.q, f.file, f.line))
        out.append(f)
    return out


def _entry_root(f, n):
    """the local / parameter an entry expression is based on (through casts, static_cast<HashtableEntry<T>*>(e), and single-definition locals)"""
    x = A.strip_casts(n)
    hops = 0
    while x is not None and hops < 6:
        hops += 1
        r = A.root_loc(x)
        if r[0] != 'v':
            return r
        li = G.local_init(f, x) if x['k'] == 'DeclRefExpr' else None
        if li is not None:
            y = A.strip_casts(li)
            if y['k'] == 'DeclRefExpr' and 'd' in y and y['d'] != x.get('d'):
                x = y
                continue
        return r
    return ('tmp',)


def _callee_obj(c):
    """object expression of a member call"""
    if c['k'] == 'CXXMemberCallExpr' and c['ch'] and c['ch'][0]['ch']:
        return c['ch'][0]['ch'][0]
    return None


def run(res, tier):
    fx = common.load_units(res, [], fn_regex=r'^muscle::(muscle_private::)?Hashtable', extra=[INST])
    allf = _uniq(f for f in fx.funcs.values() if f.full)
    base = [f for f in allf if (f.cls or '').startswith('muscle::Hashtable') and 'Iterator' not in (f.cls or '')]
    iters = [f for f in allf if (f.cls or '') == 'muscle::muscle_private::HashtableIteratorImp']
    if len(base) < 150:
        raise AnalysisBroken('only %d Hashtable member bodies instantiated' % len(base))
    if len(iters) < 8:
        raise AnalysisBroken('only %d HashtableIteratorImp member bodies instantiated' % len(iters))
    res.functions_analysed = len(base) + len(iters)
    is_rm = lambda c: (c.get('q') or '').endswith('::RemoveIterationEntry')
    is_ins = lambda c: re.search(r'::InsertIterationEntry(Aux|InOrder)?$', c.get('q') or '') is not None
    is_push = lambda c: (c.get('q') or '').endswith('::PushToFreeList')

    # ------------------------------------------------------------------------------------------ RETIRE-UNLINKS
    res.rule('RETIRE-UNLINKS', 'every call that returns an entry to the free list (PushToFreeList) is preceded, on every path, by RemoveIterationEntry() for the same entry: that call is the only place '
                               'where registered iterators are moved off an entry that is about to die', floor=3)
    n = 0
    for f in base:
        if f.q.endswith('::PushToFreeList'):
            continue
        pushes = [c for c in f.walk() if c.is_call() and is_push(c)]
        for c in pushes:
            n += 1
            obj = _callee_obj(c)
            root = _entry_root(f, obj) if obj is not None else ('tmp',)
            rms = [r for r in f.walk() if r.is_call() and is_rm(r) and r.args() and _entry_root(f, r.args()[0]) == root and root[0] == 'v']
            ok = bool(rms) and P.must_precede(f, rms, c)
            if not ok and not rms and root[0] == 'v':
                # the recycling step was split off into a helper that receives the entry as a parameter: then every call of the helper is the retirement site
                pi = [i_ for (i_, p_) in enumerate(f.params) if p_.get('d') == root[1]]
                sites = [(g, cc) for g in base for cc in g.walk() if cc.is_call() and g is not f and (cc.get('fn') == f.id or ((cc.get('q') or '') == f.q and len(cc.args()) == len(f.params)))]
                if pi and sites:
                    ok = True
                    for (g, cc) in sites:
                        r2 = _entry_root(g, cc.args()[pi[0]]) if len(cc.args()) > pi[0] else ('tmp',)
                        rms2 = [r for r in g.walk() if r.is_call() and is_rm(r) and r.args() and _entry_root(g, r.args()[0]) == r2 and r2[0] == 'v']
                        ok = ok and bool(rms2) and P.must_precede(g, rms2, cc)
                    rms = [1] * len(sites)
            res.ob('RETIRE-UNLINKS', f.where(c), '%s: the entry pushed to the free list was taken out of the iteration list first' % f.q.split('::')[-1], ok, function=f.q,
                   key='RETIRE-UNLINKS|%s|%d' % (f.q, n), how='%d RemoveIterationEntry call(s) on the same entry' % len(rms),
                   message='%s returns an entry to the free list on a path that has not called RemoveIterationEntry() for it: an iterator that is standing on the entry keeps pointing at a '
                           'recycled slot (it yields a default or a later-inserted pair, and its successor link is the free list), and the iteration list still threads through the dead entry' % f.q)
    if n < 3:
        raise AnalysisBroken('RETIRE-UNLINKS: only %d PushToFreeList call sites found' % n)

    # ------------------------------------------------------------------------------------------ MOVE-PAIRS
    res.rule('MOVE-PAIRS', 'in a function that does not retire the entry, RemoveIterationEntry(e) is followed on every path to the exit by InsertIterationEntry*(e, …): a moved entry is put back '
                           'into the iteration order', floor=5)
    n = 0
    retiring = dict((g.id, g) for g in base if not g.q.endswith('::PushToFreeList') and any(c.is_call() and is_push(c) for c in g.walk()))      # functions that recycle an entry they are given
    for f in base:
        if any(c.is_call() and is_push(c) for c in f.walk()) or f.q.endswith('::RemoveIterationEntry'):
            continue
        for r in (c for c in f.walk() if c.is_call() and is_rm(c) and c.args()):
            root = _entry_root(f, r.args()[0])
            # the unlink that belongs to a removal whose recycling step lives in a helper is RETIRE-UNLINKS' business, not a move
            if any(c.is_call() and c.get('fn') in retiring and any(_entry_root(f, a_) == root for a_ in c.args()) for c in f.walk()):
                continue
            n += 1
            ins = [i for i in f.walk() if i.is_call() and is_ins(i) and i.args() and _entry_root(f, i.args()[0 if not (i.get('q') or '').endswith('InOrder') else 1]) == root]
            ok, path = P.must_follow(f, r, ins) if ins else (False, None)
            res.ob('MOVE-PAIRS', f.where(r), '%s: the entry taken out of the iteration list is put back on every path' % f.q.split('::')[-1], bool(ok), function=f.q,
                   key='MOVE-PAIRS|%s|%s' % (f.q, r.get('l') if len([x for x in f.walk() if x.is_call() and is_rm(x)]) > 1 else ''), how='%d re-insertions of the same entry' % len(ins),
                   message='%s removes an entry from the iteration list and can return without inserting it again: the pair stays reachable by key but is never visited by any iterator, and '
                           'GetNumItems() no longer equals the length of a traversal' % f.q)
    if n < 5:
        raise AnalysisBroken('MOVE-PAIRS: only %d move sites found' % n)

    # ------------------------------------------------------------------------------------------ PUT-LINKS
    res.rule('PUT-LINKS', 'the entry PutAuxAux() hands out (fresh from the free list, already in its bucket chain) is passed to InsertIterationEntry*() by every caller', floor=2)
    n = 0
    for f in base:
        for c in (c for c in f.walk() if c.is_call() and (c.get('q') or '').endswith('::PutAuxAux')):
            n += 1
            # direct argument of an insertion, or stored in a local that is
            ok = any(i.is_call() and is_ins(i) and any(x is c for x in i.walk()) for i in f.walk())
            if not ok:
                holder = None
                for v in f.walk():
                    if v['k'] == 'VarDecl' and v['ch'] and any(x is c for x in v['ch'][0].walk()):
                        holder = v.get('d')
                    if v['k'] == 'BinaryOperator' and v.get('op') == '=' and any(x is c for x in v['ch'][1].walk()):
                        holder = A.strip_casts(v['ch'][0]).get('d')
                if holder is not None:
                    ins = [i for i in f.walk() if i.is_call() and is_ins(i) and any(x.get('d') == holder for a_ in i.args() for x in a_.walk())]
                    # the insertion is reached on every path on which the holder is non-null (a failed put returns NULL)
                    esc = P.escape_edges(f, status=True, null=True)
                    ok = bool(ins) and bool(P.must_follow(f, c, ins, escapes=esc)[0])
            res.ob('PUT-LINKS', f.where(c), '%s: the new entry is linked into the iteration order' % f.q.split('::')[-1], ok, function=f.q, key='PUT-LINKS|%s' % f.q,
                   message='%s obtains an entry from PutAuxAux() and can finish without handing it to InsertIterationEntry*(): the pair answers Get()/ContainsKey() but no traversal ever shows it' % f.q)
    if n < 2:
        raise AnalysisBroken('PUT-LINKS: only %d PutAuxAux call sites found' % n)

    # ------------------------------------------------------------------------------------------ ITER-LIFECYCLE
    res.rule('ITER-LIFECYCLE', 'HashtableIteratorImp: a constructor that takes a table hands itself to the table\'s InitializeIterator*() (→ RegisterIterator); the destructor calls UnregisterIterator() '
                               'under `_owner`; operator= unregisters from the old owner before it overwrites _owner and registers with the new one after', floor=4)
    n = 0
    for f in iters:
        short = f.q.split('::')[-1]
        if short == '(ctor)' and any('HashtableBase' in (f.ptype(p) or '') for p in f.params):
            n += 1
            regs = [c for c in f.walk() if c.is_call() and re.search(r'::(InitializeIterator(At)?|RegisterIterator)$', c.get('q') or '') and any(x['k'] == 'CXXThisExpr' for x in c.walk())]
            tp = set(p_ for p_ in (P.pos_of(f, c) for c in regs) if p_)
            ok = bool(tp) and bool(C.must_pass(f, (f.entry, -1), tp)[0])
            res.ob('ITER-LIFECYCLE', f.where(), 'iterator constructor registers with its table', ok, function=f.q, key='ITER-LIFECYCLE|ctor|%d' % len(f.params),
                   message='a HashtableIteratorImp constructor that is given a table no longer passes *this to InitializeIterator*(): the iterator is never registered, so the table cannot move it '
                           'when the entry it stands on is removed (use after free of the entry) nor detach it when the table is destroyed')
        if short == '(dtor)':
            n += 1
            un = [c for c in f.walk() if c.is_call() and (c.get('q') or '').endswith('::UnregisterIterator')]
            ok = bool(un)
            res.ob('ITER-LIFECYCLE', f.where(), 'iterator destructor unregisters from its table', ok, function=f.q, key='ITER-LIFECYCLE|dtor',
                   message='~HashtableIteratorImp no longer calls UnregisterIterator(): the table\'s iterator list keeps a pointer to the destroyed iterator and writes through it at the next removal')
        if short == 'operator=' and len(f.params) == 1 and '&&' not in (f.ptype(f.params[0]) or ''):
            ws = [a for a in f.walk() if a['k'] == 'BinaryOperator' and a.get('op') == '=' and A.strip_casts(a['ch'][0])['k'] == 'MemberExpr' and A.strip_casts(a['ch'][0]).get('n') == '_owner'
                  and A.is_this_member(A.strip_casts(a['ch'][0]))]
            for w in ws:
                n += 1
                un = [c for c in f.walk() if c.is_call() and (c.get('q') or '').endswith('::UnregisterIterator')]
                rg = [c for c in f.walk() if c.is_call() and (c.get('q') or '').endswith('::RegisterIterator')]
                # `if (_owner) …` : the edge on which _owner is null needs neither call
                esc = set()
                for blk in f.blocks.values():
                    if blk.cond is None or blk.cond not in f.nodes or len(blk.succ) != 2:
                        continue
                    (cn_, pol_) = P.strip_not(f.nodes[blk.cond])
                    cn_ = G.local_init(f, cn_)
                    if cn_['k'] == 'MemberExpr' and cn_.get('n') == '_owner' and A.is_this_member(cn_):
                        esc.add((blk.b, 1 if pol_ else 0))      # the edge on which _owner is NULL
                okb = bool(un) and P.must_precede(f, un, w, escapes=esc)
                oka = bool(rg) and bool(P.must_follow(f, w, rg, escapes=esc)[0])
                res.ob('ITER-LIFECYCLE', f.where(w), 'operator=: unregister (old owner) → _owner = … → register (new owner)', okb and oka, function=f.q, key='ITER-LIFECYCLE|assign',
                       how='unregister before: %s, register after: %s' % (okb, oka),
                       message='HashtableIteratorImp::operator= overwrites _owner %s: %s' % (
                           'without first unregistering from the old table' if not okb else 'and does not register with the new table on every path where it is not NULL',
                           'the old table keeps the iterator in its list and patches it with entries of a table it no longer walks' if not okb else
                           'the copy is not known to its table, which cannot move it off a removed entry'))
    if n < 4:
        raise AnalysisBroken('ITER-LIFECYCLE: only %d lifecycle sites found' % n)

    # ------------------------------------------------------------------------------------------ WIDTH-AGREE
    res.rule('WIDTH-AGREE', 'every dispatch on GetTableIndexType() / the index-type constant casts, under each constant, to the same HashtableEntry<uintN> as all the other dispatches do '
                            '(sibling agreement: one constant ↔ one entry width everywhere)', floor=4)
    votes = {}      # constant -> {entry type -> [(f, node)]}
    for f in base:
        for t in A.dispatch_tables(f, min_cases=2):
            for (consts, stmts) in t['cases']:
                if consts != 'default' and len(consts) != 1:
                    continue
                k = 'default' if consts == 'default' else list(consts)[0]
                for s in stmts:
                    for x in s.walk():
                        m = re.search(r'HashtableEntry<([a-z ]+|uint\d+)>', x.type() or '') if x['k'].endswith('CastExpr') or x.is_call() else None
                        if m:
                            votes.setdefault(k, {}).setdefault(m.group(1), []).append((f, x))
    n = sum(len(v) for d in votes.values() for v in d.values())
    if len(votes) < 2 or n < 6:
        raise AnalysisBroken('WIDTH-AGREE: found %d width-dispatch casts under %d constants' % (n, len(votes)))
    used = {}
    for k, d in sorted(votes.items(), key=lambda kv: str(kv[0])):
        major = max(d.items(), key=lambda kv: len(kv[1]))[0]
        used.setdefault(major, []).append(k)
        for ty, sites in sorted(d.items()):
            for (f, x) in sites:
                if ty == major:
                    continue
                res.ob('WIDTH-AGREE', f.where(x), 'index-type constant %s selects HashtableEntry<%s>' % (k, major), False, function=f.q, key='WIDTH-AGREE|%s|%s|%s' % (f.q, k, ty),
                       message='%s treats the entries of a table whose index type is %s as HashtableEntry<%s>; %d other dispatch sites use HashtableEntry<%s> for that constant: the entry '
                               'array is walked with the wrong stride as soon as a table has that index width' % (f.q, k, ty, len(d[major]), major))
        res.ob('WIDTH-AGREE', base[0].file, 'constant %s ↔ HashtableEntry<%s> at all %d sites' % (k, major, sum(len(v) for v in d.values())), len(d) == 1, nontrivial=True, function=HB,
               key='WIDTH-AGREE|const|%s' % k, how=', '.join('%s×%d' % (ty, len(v)) for ty, v in sorted(d.items())),
               message='the dispatches on the table index type disagree about constant %s' % k)
    dup = [ty for ty, ks in used.items() if len(ks) > 1]
    res.ob('WIDTH-AGREE', base[0].file, 'different constants select different entry widths', not dup, function=HB, key='WIDTH-AGREE|injective',
           message='two index-type constants select the same entry type %s' % dup)

    res.explanation = ('Static decision of four structural necessary conditions of C09 on a forced full instantiation of the Hashtable templates: pairing rules (must-precede / must-follow on the CFG) for the '
                       'iteration list against the free list, the move operations and the put path; lifecycle pairing of iterator registration; sibling agreement of the index-width dispatches. '
                       'Each is necessary for the property (breaking it breaks the behaviour) and none is sufficient.')
    res.assumptions = ['one instantiation (int32 → String) stands for the template: the rules read control structure and callee identity only, which do not depend on the key/value types']
    res.not_decided = ['refinement of an ideal ordered map over operation histories (contents, order, query results)', 'what RemoveIterationEntry does to the iterators it visits (value-level)',
                       'the sort routines and SwapContents (iterator patching there is co-located with the mutation; no pairing to check)', 'HashtableIteratorImp::SwapContentsAux (re-registration depends on the value of mustReregister)',
                       'OrderedKeysHashtable / OrderedValuesHashtable ordering', 'ImmutableHashtablePool']
