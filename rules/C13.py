"""C13  An ordered child index replayed from its update log equals the server's index.
Decided statically: INDEX-PAIR (every index mutation is followed by the matching position-carrying notification),
SINGLE-WRITER, CHILD-LINK, SNAPSHOT, ENCODING.  Not decided: replay over arbitrary histories."""
import re
from msa import guards as G
from msa import pair as P
from msa import ast as A
from msa import cfg as C
from msa.facts import AnalysisBroken
from . import common

IDX = 'muscle::DataNode::_orderedIndex'
INSERTS = ('InsertItemAt', 'AddTail', 'AddHead', 'AddTailAndGet', 'AddHeadAndGet', 'InsertItemsAt', 'AddTailMulti', 'AddHeadMulti')
REMOVES = ('RemoveItemAt', 'RemoveItemAtWithDefault', 'RemoveHead', 'RemoveTail', 'RemoveHeadWithDefault', 'RemoveTailWithDefault', 'RemoveHeadMulti', 'RemoveTailMulti',
           'RemoveFirstInstanceOf', 'RemoveLastInstanceOf', 'RemoveAllInstancesOf')
OTHER_MUT = ('Clear', 'Sort', 'ReverseItemOrdering', 'SwapContents', 'ReplaceItemAt', 'Swap', 'operator=', 'Normalize', 'EnsureSize', 'Rotate', 'TruncateToLength')


def index_receiver(call):
    r = call.receiver()
    if r is None:
        return False
    for x in r.walk():
        if x['k'] == 'MemberExpr' and x.get('q') == IDX:
            return True
    return False


def run(res, tier):
    fx = common.load_units(res, ['reflector/DataNode.cpp', 'reflector/StorageReflectSession.cpp', 'reflector/ReflectServer.cpp'] if tier == 'quick'
                           else [u for u in __import__('msa.facts', fromlist=['x']).library_units()],
                           fn_regex=r'^muscle::(DataNode|StorageReflectSession|ReflectServer|Queue)::' if tier == 'quick' else '.*')
    ops = {}
    for name in ('INDEX_OP_ENTRYINSERTED', 'INDEX_OP_ENTRYREMOVED', 'INDEX_OP_CLEARED'):
        v = fx.enum_const(name)
        if v is None:
            raise AnalysisBroken('enum constant %s not found (StorageReflectConstants.h changed?)' % name)
        ops[name] = v
    if len(set(ops.values())) != 3:
        res.ob('ENCODING', 'reflector/StorageReflectConstants.h', 'INDEX_OP_* constants are pairwise distinct', False, key='ENCODING|INDEX_OP|distinct', function='INDEX_OP',
               message='two index-update op codes have the same value %s: a client cannot tell inserts from removals' % ops)
    else:
        res.ob('ENCODING', 'reflector/StorageReflectConstants.h', 'INDEX_OP_* constants are pairwise distinct', True, how=str(ops), function='INDEX_OP')

    res.rule('INDEX-PAIR', 'in class DataNode every mutation of *_orderedIndex is, on its success path and unless the notify-with session is NULL, followed by '
                           'NotifySubscribersThatNodeIndexChanged(*this, OP, POS, NAME) with OP matching the mutation kind and POS the mutation\'s index argument', floor=5)
    res.rule('SINGLE-WRITER', 'no function outside class DataNode mutates DataNode::_orderedIndex', floor=1)
    dn_funcs = [f for f in fx.funcs.values() if f.full and f.cls == 'muscle::DataNode']
    if len(dn_funcs) < 15:
        raise AnalysisBroken('only %d DataNode member functions found' % len(dn_funcs))
    res.functions_analysed = len(dn_funcs)
    n_mut = 0
    for f in sorted(dn_funcs, key=lambda f: f.line):
        if f.q.endswith('(dtor)') or f.q.endswith('::Reset') or f.q.endswith('(ctor)'):
            continue      # frozen exception: teardown of the whole node (no subscriber can hold an index of a node that no longer exists)
        esc = P.escape_edges(f)
        notifies = P.calls(f, r'::NotifySubscribersThatNodeIndexChanged$')
        for c in f.walk():
            if c['k'] != 'CXXMemberCallExpr' or c.get('cm') or not index_receiver(c):
                continue
            m = (c.get('q') or '').split('::')[-1]
            if not (c.get('q') or '').startswith('muscle::Queue::'):
                continue
            kind = 'insert' if m in INSERTS else ('remove' if m in REMOVES else ('other' if m in OTHER_MUT else None))
            if kind is None:
                # non-const accessor (operator[], GetItemAt ...) : not a structural mutation
                continue
            n_mut += 1
            where = f.where(c)
            key = 'INDEX-PAIR|%s|%s' % (f.q, m)
            # rollback exemption: a removal that is control dependent on the *failure* of a later operation
            if kind == 'remove':
                gs = C.guards_of_block(f, P.pos_of(f, c)[0]) if P.pos_of(f, c) else set()
                rollback = False
                for (cn, truth) in gs:
                    n, pol = P.strip_not(f.nodes[cn])
                    st = P.is_status_test(n)
                    # X.IsError() true  or X.IsOK() false
                    if st and ((st == 'err') == (pol == truth)):
                        rollback = True
                    # `a && b && x.IsError(ret)` chains: the last condition of the chain guards the statement
                if rollback:
                    res.ob('INDEX-PAIR', where, 'rollback %s(%s) in %s undoes an insert that has not been announced yet' % (m, c.args()[0].text() if c.args() else '', f.q), True,
                           how='control dependent on the failure edge of a status test; the insert\'s own notification follows and is skipped on that path', function=f.q, nontrivial=False)
                    continue
            if kind == 'other':
                res.ob('INDEX-PAIR', where, 'index mutation %s in %s is announced' % (m, f.q), False, function=f.q, key=key,
                       message='%s calls %s on the ordered index: there is no update instruction that tells subscribers about it' % (f.q, m))
                continue
            want_op = ops['INDEX_OP_ENTRYINSERTED'] if kind == 'insert' else ops['INDEX_OP_ENTRYREMOVED']
            pos_arg = c.args()[0] if c.args() else None
            good = []
            why_not = []
            for nt in notifies:
                a = nt.args()
                if len(a) < 4:
                    continue
                if a[1].get('v') != want_op:
                    why_not.append('line %s announces op %s, expected %s' % (nt.get('l'), a[1].get('v'), want_op))
                    continue
                if pos_arg is not None and not P.same_value(a[2], pos_arg):
                    why_not.append('line %s announces position `%s`, mutation used `%s`' % (nt.get('l'), a[2].text(), pos_arg.text()))
                    continue
                if not (A.strip_casts(a[0])['k'] == 'UnaryOperator' and A.strip_casts(a[0]).get('op') == '*' and A.strip_casts(A.strip_casts(a[0])['ch'][0])['k'] == 'CXXThisExpr'):
                    why_not.append('line %s announces a node other than *this' % nt.get('l'))
                    continue
                good.append(nt)
            ok, path = P.must_follow(f, c, good, escapes=esc) if good else (False, None)
            res.ob('INDEX-PAIR', where, '%s(%s) on the ordered index in %s is followed by the matching notification' % (m, pos_arg.text() if pos_arg is not None else '', f.q), ok,
                   how='NotifySubscribersThatNodeIndexChanged(*this, %s, %s, …) at line(s) %s on every non-failure, non-quiet path' % (
                       'INSERTED' if kind == 'insert' else 'REMOVED', pos_arg.text() if pos_arg is not None else '?', ','.join(str(g.get('l')) for g in good)) if ok else None,
                   function=f.q, key=key,
                   message='%s: %s(%s) changes the ordered index but %s' % (f.q, m, pos_arg.text() if pos_arg is not None else '',
                           ('; '.join(why_not) if (why_not and not good) else 'a path reaches the function exit without the matching NotifySubscribersThatNodeIndexChanged (blocks %s)' % path)),
                   detail={'path_blocks': path, 'candidates_rejected': why_not})
    # ------------------------------------------------------------------ SINGLE-WRITER
    writers = []
    nscan = 0
    for f in fx.funcs.values():
        if not f.full or f.cls == 'muscle::DataNode':
            continue
        nscan += 1
        for n in f.walk():
            if n['k'] == 'MemberExpr' and n.get('q') == IDX:
                p = n.parent
                # climb through deref/casts
                while p is not None and (p['k'] in ('UnaryOperator', 'ParenExpr') or p['k'].endswith('CastExpr')) and p.get('op') in (None, '*'):
                    p = p.parent
                bad = False
                if p is not None and p['k'] in ('BinaryOperator', 'CompoundAssignOperator') and p.get('op') in A.ASSIGN_OPS and n in list(p['ch'][0].walk()):
                    bad = True
                if p is not None and p['k'] == 'MemberExpr' and p.parent is not None and p.parent['k'] == 'CXXMemberCallExpr' and not p.parent.get('cm'):
                    bad = True
                if p is not None and p['k'] == 'CXXDeleteExpr':
                    bad = True
                if bad:
                    writers.append((f.q, f.where(n)))
    res.ob('SINGLE-WRITER', 'reflector/DataNode.h', 'only DataNode member functions mutate _orderedIndex (%d other functions scanned)' % nscan, not writers, function=IDX,
           how='0 writes outside the class', key='SINGLE-WRITER|%s|%s' % (IDX, writers[0][0] if writers else ''),
           message='%s mutates DataNode::_orderedIndex directly at %s, bypassing the notifying DataNode API' % (writers[0] if writers else ('', '')))
    # ------------------------------------------------------------------ CHILD-LINK
    res.rule('CHILD-LINK', 'RemoveChild removes the child\'s index entry (RemoveIndexEntry(key)) before it drops the child; InsertIndexEntryAt inserts the node it looked up in _children under the given key', floor=2)
    f = fx.fn1('muscle::DataNode::RemoveChild')
    drops = [c for c in P.calls(f, r'^muscle::Hashtable(Base|Mid)?::Remove$') if any(x.get('n') == '_children' for x in c.walk())]
    rie = P.calls(f, r'^muscle::DataNode::RemoveIndexEntry$')
    if not drops:
        raise AnalysisBroken('RemoveChild: the _children->Remove call was not found')
    keyparam = f.params[0]['d']
    rie_ok = [c for c in rie if c.args() and A.strip_casts(c.args()[0]).get('d') == keyparam]
    # "nothing to do" edges are those of the looked-up child being NULL; a test of a *parameter* (the optional notifier) is not one of them — the index entry must go on the quiet path too
    pset = set(p_['d'] for p_ in f.params)
    esc = set(e for e in P.escape_edges(f) if not any(x['k'] == 'DeclRefExpr' and x.get('d') in pset for x in f.nodes[f.blocks[e[0]].cond].walk()))
    ok = bool(rie_ok) and all(P.must_precede(f, rie_ok, d, escapes=esc) for d in drops)
    res.ob('CHILD-LINK', f.where(), 'DataNode::RemoveChild(key) calls RemoveIndexEntry(key, …) before _children->Remove(key)', ok, function=f.q,
           how='RemoveIndexEntry(key) at line %s precedes the drop on every non-null path' % (rie_ok[0].get('l') if rie_ok else '?'), key='CHILD-LINK|%s|RemoveIndexEntry' % f.q,
           message='DataNode::RemoveChild can drop a child while its entry stays in the ordered index: the index then lists a node that no longer exists')
    f = fx.fn1('muscle::DataNode::InsertIndexEntryAt')
    from msa import ip as IP
    # the insertion itself may sit in a private member the function was split into (msa/ip.py): the inserted item is then looked up at the call site
    ins = [(g_, c) for g_ in IP.scope(fx, f, r'^muscle::DataNode::') for c in g_.walk() if c['k'] == 'CXXMemberCallExpr' and index_receiver(c) and (c.get('q') or '').endswith('::InsertItemAt')]
    ok = False
    how = None
    for (g_, c) in ins:
        item = A.strip_casts(c.args()[1]) if len(c.args()) > 1 else None
        if item is not None and g_ is not f:
            (h_, item) = IP.resolve_arg(fx, g_, item, r'^muscle::DataNode::')
            item = A.strip_casts(item)
            c = next((cc for cc in f.walk() if cc.is_call() and IP.helper_of(fx, cc, r'^muscle::DataNode::') is g_), c) if h_ is f else c
            if h_ is not f:
                continue
        if item is not None and item['k'] == 'DeclRefExpr' and 'd' in item:
            gets = [g for g in P.calls(f, r'^muscle::Hashtable(Base|Mid)?::Get$') if any(x.get('n') == '_children' for x in g.walk())
                    and any(A.strip_casts(a).get('d') == item['d'] for a in g.args())]
            if gets and all(C.dominates(f, g['i'], c['i']) for g in gets):
                ok = True
                how = 'inserted item `%s` is the out-parameter of _children->Get(&key, …) at line %s' % (item.get('n'), gets[0].get('l'))
    res.ob('CHILD-LINK', f.where(), 'DataNode::InsertIndexEntryAt inserts the child it found in _children under the given key', ok, how=how, function=f.q,
           key='CHILD-LINK|%s|lookup' % f.q, message='DataNode::InsertIndexEntryAt no longer takes the inserted node from _children: the index can list a node that is not a child')
    # ------------------------------------------------------------------ SNAPSHOT
    res.rule('SNAPSHOT', 'GetDataCallback emits INDEX_OP_CLEARED, then for i ascending from 0 one INDEX_OP_ENTRYINSERTED instruction carrying position i and the name of (*index)[i]', floor=3)
    f = fx.fn1('muscle::StorageReflectSession::GetDataCallback')
    snapshot_rule(res, f, ops)
    # ---- round-1 additions (seeded changes): the session-side conditions under which the log reaches every observer
    SRS_ = 'muscle::StorageReflectSession'
    res.rule('INDEX-OBSERVERS', 'StorageReflectSession: every InsertOrderedChild() it performs passes `this` as the session that announces the index insertion (independently of the quiet flag) and is '
                                'followed on success by _indexingPresent = true (which is what lets the owner itself receive index snapshots); DataNode::InsertOrderedChild accepts a generated name only '
                                'after HasChild() said it is free', floor=3)
    n_ioc = 0
    for f in sorted((f for f in fx.funcs.values() if f.full and (f.cls or '') == SRS_), key=lambda f: f.line):
        for c in f.walk():
            if not (c['k'] == 'CXXMemberCallExpr' and (c.get('q') or '') == 'muscle::DataNode::InsertOrderedChild' and len(c.args()) >= 5):
                continue
            n_ioc += 1
            a3 = A.strip_casts(c.args()[3])
            ok1 = a3['k'] == 'CXXThisExpr'
            res.ob('INDEX-OBSERVERS', f.where(c), '%s: InsertOrderedChild announces the index insertion through `this` unconditionally' % f.q.split('::')[-1], ok1, how='4th argument `%s`' % c.args()[3].text(40),
                   function=f.q, key='INDEX-OBSERVERS|%s|notifier' % f.q,
                   message='%s passes `%s` as the session that announces the index insertion: when it is NULL (e.g. the quiet flag) the child enters the server\'s index but no INDEX_OP_ENTRYINSERTED '
                           'is sent, so every replayed index is one entry short from then on' % (f.q, c.args()[3].text(50)))
            sets = [n for n in f.walk() if n['k'] == 'BinaryOperator' and n.get('op') == '=' and A.strip_casts(n['ch'][0]).get('n') == '_indexingPresent' and A.strip_casts(n['ch'][1]).get('v') in (1, True)]
            ok2 = bool(sets) and P.must_follow(f, c, sets, escapes=P.escape_edges(f))[0]
            res.ob('INDEX-OBSERVERS', f.where(c), '%s: a successful InsertOrderedChild is followed by _indexingPresent = true' % f.q.split('::')[-1], ok2, function=f.q,
                   key='INDEX-OBSERVERS|%s|indexing-present' % f.q,
                   message='%s inserts an ordered child without setting _indexingPresent: GetDataCallback keeps skipping the session\'s own subtree, so the owner gets no index snapshot when it subscribes '
                           'to its own node, yet receives the later incremental updates' % f.q)
    if n_ioc < 2:
        raise AnalysisBroken('INDEX-OBSERVERS: %d InsertOrderedChild call sites found in StorageReflectSession' % n_ioc)
    # the other two ways a session can put an entry into an index: ReorderChild() (adds the child if it is not indexed yet) and InsertIndexEntryAt()
    n_oth = 0
    for f in sorted((f for f in fx.funcs.values() if f.full and (f.cls or '') == SRS_), key=lambda f: f.line):
        for c in f.walk():
            if not (c['k'] == 'CXXMemberCallExpr' and (c.get('q') or '') in ('muscle::DataNode::ReorderChild', 'muscle::DataNode::InsertIndexEntryAt')):
                continue
            n_oth += 1
            sets = [n for n in f.walk() if n['k'] == 'BinaryOperator' and n.get('op') == '=' and A.strip_casts(n['ch'][0]).get('n') == '_indexingPresent' and A.strip_casts(n['ch'][1]).get('v') in (1, True)]
            ok2 = bool(sets) and (P.must_follow(f, c, sets, escapes=P.escape_edges(f))[0] or P.must_precede(f, sets, c))
            res.ob('INDEX-OBSERVERS', f.where(c), '%s: %s is accompanied by _indexingPresent = true' % (f.q.split('::')[-1], (c.get('q') or '').split('::')[-1]), ok2, function=f.q,
                   key='INDEX-OBSERVERS|%s|indexing-present:%s' % (f.q, (c.get('q') or '').split('::')[-1]),
                   message='%s puts an entry into a node\'s index through %s without setting _indexingPresent: GetDataCallback keeps skipping the session\'s own subtree, so the owner cannot obtain a '
                           'snapshot of an index it built this way (an observer can), yet it receives the incremental updates' % (f.q, (c.get('q') or '').split('::')[-1]))
    if n_oth < 2:
        raise AnalysisBroken('INDEX-OBSERVERS: %d ReorderChild/InsertIndexEntryAt call sites found in StorageReflectSession' % n_oth)
    f = fx.fn1('muscle::DataNode::InsertOrderedChild')
    hc = [c for c in f.walk() if c.is_call() and (c.get('q') or '').endswith('DataNode::HasChild')]
    gens = [c for c in f.walk() if c.is_call() and re.search(r'(sprintf|snprintf|Sprintf)$', c.get('q') or '')]
    if not gens:
        # the generator loop may have been extracted into a private helper of DataNode (msa/ip.py): judge it where it is
        from msa import ip as IP
        for g_ in IP.scope(fx, f, r'^muscle::DataNode::'):
            gg = [c for c in g_.walk() if c.is_call() and re.search(r'(sprintf|snprintf|Sprintf)$', c.get('q') or '')]
            if gg and g_ is not f:
                f, gens = g_, gg
                break
    if not gens:
        raise AnalysisBroken('INDEX-OBSERVERS: the name generator of InsertOrderedChild was not found')
    # the buffer that holds the generated name must be tested with HasChild(buf) == false on the edge that leads to its use
    bufd = set(x['d'] for x in gens[0].args()[0].walk() if x['k'] == 'DeclRefExpr' and 'd' in x)
    uses = []
    for n in f.walk():
        rhs = None
        if n['k'] == 'CXXOperatorCallExpr' and (n.get('q') or '').endswith('::operator=') and len(n['ch']) >= 3:
            rhs = n['ch'][2]
        elif n['k'] == 'BinaryOperator' and n.get('op') == '=':
            rhs = n['ch'][1]
        if rhs is not None and any(x['k'] == 'DeclRefExpr' and x.get('d') in bufd for x in rhs.walk()):
            uses.append(n)
    okn = bool(uses)
    for u in uses:
        g_ok = False
        p = P.pos_of(f, u)
        for (c_, t_) in (C.guards_of_block(f, p[0]) if p else []):
            gn, pol = P.strip_not(f.nodes[c_])
            if gn.is_call() and (gn.get('q') or '').endswith('DataNode::HasChild') and any(x['k'] == 'DeclRefExpr' and x.get('d') in bufd for x in gn.walk()) and t_ != pol:
                g_ok = True
        okn = okn and g_ok
    res.ob('INDEX-OBSERVERS', f.where(gens[0]), 'InsertOrderedChild uses a generated child name only on the edge where HasChild(name) is false', okn, function=f.q, key='INDEX-OBSERVERS|muscle::DataNode::InsertOrderedChild|fresh-name',
           message='DataNode::InsertOrderedChild uses a generated name without checking that no child has it: PutChild then replaces the existing child while its old index entry stays, so the index lists '
                   'the name twice and one slot refers to a node that is no longer a child')
    # ---- round-2 additions
    SRS2 = 'muscle::StorageReflectSession'
    f = fx.fn1(SRS2 + '::NodeIndexChanged')
    ups = P.calls(f, r'::UpdateSubscriptionIndexMessage$')
    dirty = [n for n in f.walk() if n['k'] == 'BinaryOperator' and n.get('op') == '=' and A.strip_casts(n['ch'][0]).get('n') == '_subsDirty' and A.strip_casts(n['ch'][1]).get('v') in (1, True)]
    if not ups:
        raise AnalysisBroken('INDEX-OBSERVERS: NodeIndexChanged: UpdateSubscriptionIndexMessage call not found')
    okd = bool(dirty) and all(P.must_precede(f, dirty, u) or P.must_follow(f, u, dirty)[0] for u in ups)
    res.ob('INDEX-OBSERVERS', f.where(ups[0]), 'NodeIndexChanged marks the subscription Messages dirty whenever it queues an index instruction', okd, function=f.q, key='INDEX-OBSERVERS|%s|dirty' % f.q,
           message='NodeIndexChanged queues an index instruction without setting _subsDirty: PushSubscriptionMessages() flushes only while that flag is set, so a pure index operation (reorder, quiet insert) '
                   'stays parked in the pending Message; the replica is stale at quiescence and the parked instructions arrive after a later snapshot')
    f = fx.fn1(SRS2 + '::NodeCreated')
    okm = False
    for c in f.walk():
        if c.is_call() and (c.get('q') or '') == SRS2 + '::GetDataNodeSubscribersTableFromPool' and len(c.args()) > 2:
            d = A.strip_casts(c.args()[2])
            if d['k'] == 'CXXMemberCallExpr' and (d.get('q') or '').endswith('::GetMatchCount') and d.receiver() is not None and A.strip_casts(d.receiver()).get('n') == '_subscriptions':
                okm = True
    res.ob('INDEX-OBSERVERS', f.where(), 'NodeCreated marks a new node with the number of matching subscription paths (GetMatchCount)', okm, function=f.q, key='INDEX-OBSERVERS|%s|matchcount' % f.q,
           message='NodeCreated no longer records how many of the session\'s subscription paths match the new node: the per-node mark is a per-path reference count, so removing one of two overlapping '
                   'subscriptions erases the session from the node\'s subscriber table and it stops receiving index updates it is still subscribed to')
    round3_rules(res, fx)
    res.explanation = ('Static decision, on the resolved AST/CFG of DataNode.cpp and StorageReflectSession.cpp, of the pairing that makes the index update log replayable: %d mutation sites of '
                       'DataNode::_orderedIndex were found; each insert/remove is followed on every non-failure, non-quiet path by the notification with the matching op code and the same position '
                       'expression; nothing outside DataNode writes the index; RemoveChild unlinks the index entry first; the snapshot is clear + in-order inserts with the loop variable as position. '
                       'Replay over arbitrary histories is not decided.' % n_mut)
    res.assumptions = ['the notification routine transmits op, index and key unchanged (checked separately as ENCODING only for the op constants)']
    res.not_decided = ['equality of client and server index over arbitrary operation histories', 'timing/batching of update Messages']


def _existence_only(g, c):
    """the first dominating fact at call c that is not an existence test (non-null pointer / Ref, non-empty container, iterator has data); None if all are"""
    for (a, t) in G.atoms_at(g, c):
        a0 = A.strip_casts(a)
        if a0.is_call() and (a0.get('q') or '').split('::')[-1] in ('HasItems', 'HasData', 'IsEmpty', 'operator()', 'GetItemPointer'):
            continue
        if a0['k'] in ('DeclRefExpr', 'MemberExpr') and (a0.type().rstrip().endswith('*') or 'Ref' in a0.type()):
            continue
        if any(l_['k'] in ('DeclRefExpr', 'MemberExpr') and l_.type().rstrip().endswith('*') and (r_['k'] in ('GNUNullExpr', 'CXXNullPtrLiteralExpr') or r_.get('v') == 0) for (l_, op_, r_) in A.rel_forms(a0, True) if op_ in ('==', '!=')):
            continue
        return a0
    return None


def round3_rules(res, fx):
    SRS = 'muscle::StorageReflectSession'
    # index instructions are generated by the server, so EVERY subscriber of the node — the originating session included — must get them (there is no reflect-to-self for index updates)
    res.rule('INDEX-TO-ALL', 'NotifySubscribersThatNodeIndexChanged calls NodeIndexChanged on every subscriber that exists (no exclusion of the originating session); '
                             'AfterMessageReceivedFromGateway pushes the buffered updates unconditionally (a snapshot sent by a later command of the same batch must not overtake them)', floor=2)
    f = fx.fn1(SRS + '::NotifySubscribersThatNodeIndexChanged')
    calls = P.calls(f, r'::NodeIndexChanged$')
    if not calls:
        raise AnalysisBroken('INDEX-TO-ALL: NodeIndexChanged call not found')
    for c in calls:
        bad = _existence_only(f, c)
        # … and the call is not skipped by a disjunctive condition either: once the subscriber's session pointer is known to be non-null, the call lies on every path to the next iteration
        rv = A.strip_casts(c.receiver()) if c.receiver() is not None else None
        pc = P.pos_of(f, c)
        lp = [hb for hb in C.natural_loops(f) if pc and pc[0] in hb[1]]
        if bad is None and rv is not None and rv.get('d') is not None and lp:
            (h_, body_) = min(lp, key=lambda hb: len(hb[1]))
            for blk in f.blocks.values():
                if blk.cond is None or blk.cond not in f.nodes or len(blk.succ) != 2 or blk.b not in body_:
                    continue
                n0, pol = P.strip_not(f.nodes[blk.cond], True)
                if n0['k'] == 'DeclRefExpr' and n0.get('d') == rv['d']:
                    tgt = blk.succ[0 if pol else 1]
                    if tgt is not None and tgt >= 0 and tgt != pc[0] and C.can_reach(f, (tgt, -1), set([(h_, -1)]), avoid_points=set([pc])):
                        # reachable without the call: is it through blocks of this iteration only?
                        bad = f.nodes[blk.cond]
                        cands = [f.nodes[b2.cond] for b2 in f.blocks.values() if b2.cond is not None and b2.cond in f.nodes and b2.b in body_ and b2.b != blk.b and C.can_reach(f, (tgt, -1), set([(b2.b, 0)])) and b2.b != h_]
                        if cands:
                            bad = cands[0]
        res.ob('INDEX-TO-ALL', f.where(c), 'every existing subscriber is told about an index change', bad is None, function=f.q, key='INDEX-TO-ALL|%s' % f.q,
               message='NotifySubscribersThatNodeIndexChanged tells a subscriber about an index change only under `%s`: a session that modifies an index it is itself subscribed to (without '
                       'reflect-to-self) never sees its own inserts, moves and removals, so its replica of the index diverges from the server\'s' % (bad.text(60) if bad is not None else ''))
    f = fx.fn1(SRS + '::AfterMessageReceivedFromGateway')
    calls = P.calls(f, r'::PushSubscriptionMessages$')
    bad = _existence_only(f, calls[0]) if calls else True
    res.ob('INDEX-TO-ALL', f.where(), 'AfterMessageReceivedFromGateway pushes the subscription Messages unconditionally', bool(calls) and bad is None, function=f.q, key='INDEX-TO-ALL|%s|push' % f.q,
           message='AfterMessageReceivedFromGateway pushes the buffered index/data updates only under `%s`: inside a batch, a snapshot requested by a later command is sent before the updates of the '
                   'earlier commands, and replaying the log then applies them on top of a snapshot that already contains them' % (bad.text(50) if bad is not None and bad is not True else ''))
    # ENTRY-ONCE: "each at most once": an entry is added only for a child that cannot have one yet
    res.rule('ENTRY-ONCE', 'every statement that adds an entry to an ordered index (Queue insertion into _orderedIndex; a call of DataNode::InsertIndexEntryAt, whose documented precondition is that the child '
                           'is not in the index) adds a node created in the same function, or is preceded on every path by RemoveIndexEntry() for that child on the same node (or by a test of the index for it)', floor=3)
    n_eo = 0
    from msa import ip as IP_eo
    prim_scope = set(h_.id for pf in fx.funcs.values() if pf.full and pf.q.endswith('DataNode::InsertIndexEntryAt') for h_ in IP_eo.scope(fx, pf, r'^muscle::DataNode::', single_caller=True)) | \
        set(pf.id for pf in fx.funcs.values() if pf.full and pf.q.endswith('DataNode::InsertIndexEntryAt'))
    for g in sorted((g for g in fx.funcs.values() if g.full and re.search(r'^muscle::(DataNode|StorageReflectSession)::', g.q)), key=lambda g: (g.file, g.line)):
        for c in g.walk():
            if not c.is_call():
                continue
            qn = c.get('q') or ''
            prim = c['k'] == 'CXXMemberCallExpr' and qn.split('::')[-1] in ('InsertItemAt', 'AddTail', 'AddHead', 'InsertItemsAt', 'AddTailMulti', 'AddHeadMulti') and 'Queue' in qn \
                and c.receiver() is not None and any(y.get('n') == '_orderedIndex' for y in c.receiver().walk()) and c.args()
            api = qn.endswith('DataNode::InsertIndexEntryAt')
            if not (prim or api):
                continue
            if prim and g.id in prim_scope:
                continue          # the primitive behind the public call (or a private member it was split into): its callers carry the obligation (they are the `api` sites)
            n_eo += 1
            recv = c.receiver() if api else None
            rk = A.render_key(A.strip_casts(recv)) if recv is not None else 'this'
            # (a) the node that is added was created here
            fresh = False
            if prim:
                for a in c.args():
                    a0 = A.strip_casts(a)
                    if a0['k'] == 'DeclRefExpr' and a0.get('d') is not None:
                        for v in g.walk():
                            if v['k'] == 'VarDecl' and v.get('d') == a0['d'] and v['ch'] and any(x.is_call() and (x.get('q') or '').endswith('::GetNewDataNode') for x in v['ch'][0].walk()):
                                fresh = True
            # (b) the old entry (if any) was removed first, on the same node
            rem = []
            for r_ in g.walk():
                if r_.is_call() and re.search(r'DataNode::(RemoveIndexEntry|RemoveIndexEntryAt)$', r_.get('q') or ''):
                    rr = r_.receiver() if r_['k'] == 'CXXMemberCallExpr' else None
                    rrk = A.render_key(A.strip_casts(rr)) if rr is not None and A.strip_casts(rr)['k'] != 'CXXThisExpr' else 'this'
                    if rrk == rk:
                        rem.append(r_)
            removed = bool(rem) and P.must_precede(g, rem, c)
            # (c) a dominating test that looks the child up in the index
            tested = any(any(x.is_call() and re.search(r'::(IndexOf|LastIndexOf|Contains|HasIndexEntry|GetIndexOf\w*)$', x.get('q') or '') for x in cn.walk()) for (cn, t) in G.atoms_at(g, c))
            ok = fresh or removed or tested
            res.ob('ENTRY-ONCE', g.where(c), '%s line %s: the child gets an index entry only where it cannot have one already' % (g.q.split('::')[-1], c.get('l')), ok, function=g.q,
                   how='fresh node' if fresh else 'RemoveIndexEntry first' if removed else 'index tested' if tested else None, key='ENTRY-ONCE|%s|%s' % (g.q, qn.split('::')[-1]),
                   message='%s adds an index entry with %s() for a child that may already have one (no RemoveIndexEntry() for it on the same node before, no test of the index, and the node is not new): '
                           'the index then lists the child twice — every later snapshot and replica carries the duplicate, and a removal of the child takes out only one of the two entries, leaving an '
                           'entry for a node that no longer exists' % (g.q, qn.split('::')[-1]))
    if n_eo < 3:
        raise AnalysisBroken('ENTRY-ONCE: only %d index insertion sites found' % n_eo)
    # FULL-SCAN: a search of the index by node name looks at every position
    res.rule('FULL-SCAN', 'in DataNode.cpp a loop that compares (*_orderedIndex)[i]()->GetNodeName() with a name covers every index: descending from the last valid index while i >= 0, or ascending '
                          'from 0 while i < count', floor=3)
    n = 0
    for g in sorted((g for g in fx.funcs.values() if g.full and g.file.endswith('reflector/DataNode.cpp')), key=lambda g: g.line):
        for lp in (x for x in g.walk() if x['k'] in ('ForStmt', 'WhileStmt')):
            cl = A.counting_loop(lp)
            if not cl:
                continue
            body = lp.role('body')
            if body is None:
                continue
            # the body compares the name of the index entry at the loop variable
            subs = [x for x in body.walk() if x['k'] == 'CXXOperatorCallExpr' and (x.get('q') or '').endswith('Queue::operator[]') and len(x['ch']) > 2 and A.strip_casts(x['ch'][2]).get('d') == cl['var']
                    and (any(y.get('n') == '_orderedIndex' for y in x['ch'][1].walk()) or _is_node_queue(x['ch'][1]))]
            if not subs or not any(x.is_call() and (x.get('q') or '').endswith('::GetNodeName') for x in body.walk()):
                continue
            if not any(x['k'] in ('CXXOperatorCallExpr', 'BinaryOperator') and ((x.get('q') or '').endswith('operator==') or x.get('op') == '==') and any(y in subs for y in x.walk()) for x in body.walk()):
                continue
            n += 1
            st = A.strip_casts(cl['start']) if cl['start'] is not None else None
            bd = A.strip_casts(cl['bound'])
            full = False
            if cl['step'] == -1 and st is not None:
                from_last = any(y.is_call() and (y.get('q') or '').endswith('::GetLastValidIndex') for y in st.walk()) or \
                    (st['k'] == 'BinaryOperator' and st.get('op') == '-' and A.strip_casts(st['ch'][1]).get('v') == 1 and any(y.is_call() and (y.get('q') or '').endswith('::GetNumItems') for y in st.walk()))
                full = from_last and ((cl['op'] == '>=' and bd.get('v') == 0) or (cl['op'] == '>' and bd.get('v') == -1))
            elif cl['step'] == 1 and st is not None:
                full = st.get('v') == 0 and ((cl['op'] == '<' and any(y.is_call() and (y.get('q') or '').endswith('::GetNumItems') for y in bd.walk())) or
                                             (cl['op'] == '<=' and any(y.is_call() and (y.get('q') or '').endswith('::GetLastValidIndex') for y in bd.walk())))
            res.ob('FULL-SCAN', g.where(lp), '%s: the search of the index by name covers every position' % g.q.split('::')[-1], full, function=g.q, key='FULL-SCAN|%s|%s' % (g.q, n),
                   how='start `%s`, while i %s %s, step %s' % (st.text(30) if st is not None else '?', cl['op'], bd.text(20), cl['step']),
                   message='%s searches the ordered index with a loop from `%s` while i %s %s: some position (slot 0, or the last one) is never examined, so a child that sits there is not found — its '
                           'entry is not removed from the index (the index names a node that no longer exists) or is listed twice after a move' % (g.q, st.text(30) if st is not None else '?', cl['op'], bd.text(20)))
    if n < 3:
        raise AnalysisBroken('FULL-SCAN: only %d name searches over the ordered index found in DataNode.cpp' % n)


def _is_node_queue(e):
    """the subscripted object is a Queue of DataNodeRef (the ordered index handed to a helper by reference)"""
    t = (A.strip_casts(e).type() or '')
    return 'Queue<' in t and 'DataNode' in t


def snapshot_rule(res, f, ops):
    # the for loop whose body formats INDEX_OP_ENTRYINSERTED
    loops = [n for n in f.walk() if n['k'] == 'ForStmt']
    target = None
    for lp in loops:
        for x in lp.walk():
            if x.get('v') == ops['INDEX_OP_ENTRYINSERTED'] and x['k'] in ('DeclRefExpr', 'ImplicitCastExpr', 'CStyleCastExpr', 'IntegerLiteral', 'CharacterLiteral'):
                target = lp
    key = 'SNAPSHOT|%s|' % f.q
    if target is None:
        res.ob('SNAPSHOT', f.where(), 'snapshot loop emits INDEX_OP_ENTRYINSERTED', False, function=f.q, key=key + 'loop',
               message='GetDataCallback has no loop emitting INDEX_OP_ENTRYINSERTED entries: a newly subscribed client gets no index snapshot')
        return
    cond, inc = target.role('cond'), target.role('inc')
    cl = A.counting_loop(target)
    iv = cl['var'] if cl and cl['start'] is not None and A.strip_casts(cl['start']).get('v') == 0 else None
    asc = bool(cl) and cl['step'] == 1
    upper = bool(cl) and cl['op'] == '<'
    res.ob('SNAPSHOT', f.where(target), 'snapshot loop runs i = 0, 1, … < index length', bool(iv is not None and asc and upper), function=f.q,
           how='for (i=0; %s; %s)' % (cond.text() if cond is not None else '?', inc.text() if inc is not None else '?'), key=key + 'ascending',
           message='the snapshot loop no longer enumerates positions 0..n-1 in ascending order: replaying the inserts builds a different order')
    # position argument of the formatted instruction is the induction variable; the name is taken from (*index)[i]
    body = target.role('body')
    pos_ok = name_ok = False
    for x in body.walk():
        if x.is_call() and (x.get('q') or '').endswith('muscleSprintf'):
            args = x.args()
            if any(a.get('v') == ops['INDEX_OP_ENTRYINSERTED'] for a in args) and any(A.strip_casts(a).get('d') == iv for a in args):
                pos_ok = True
        if x['k'] == 'CXXOperatorCallExpr' and (x.get('q') or '').endswith('Queue::operator[]'):
            if x.args() and len(x.args()) > 1 and A.strip_casts(x.args()[1]).get('d') == iv:
                p = x
                while p is not None and p is not body:
                    if p.is_call() and (p.get('q') or '').endswith('::GetNodeName'):
                        name_ok = True
                    p = p.parent
    res.ob('SNAPSHOT', f.where(target), 'each snapshot instruction carries position i and the name of (*index)[i]', pos_ok and name_ok, function=f.q,
           how='muscleSprintf(…, INDEX_OP_ENTRYINSERTED, i) and (*index)[i]()->GetNodeName()', key=key + 'position',
           message='the snapshot instruction no longer pairs position i with the name of the i-th index entry')
    # the CLEARED instruction precedes the loop
    cleared = [x for x in f.walk() if x['k'] == 'VarDecl' and any(y.get('v') == ops['INDEX_OP_CLEARED'] for y in x.walk())]
    adds = []
    for c in P.calls(f, r'^muscle::Message::AddString$'):
        for a in c.args():
            a2 = A.strip_casts(a)
            for y in a2.walk():
                if y['k'] == 'DeclRefExpr' and cleared and y.get('d') == cleared[0]['d']:
                    adds.append(c)
    first_in_loop = None
    for x in body.walk():
        if x.is_call() and (x.get('q') or '') == 'muscle::Message::AddString':
            first_in_loop = x
    ok = bool(adds) and first_in_loop is not None and all(C.dominates(f, a['i'], first_in_loop['i']) for a in adds)
    res.ob('SNAPSHOT', f.where(target), 'INDEX_OP_CLEARED is added before the first insert instruction of the snapshot', ok, function=f.q,
           how='AddString(path, clearStr) at line %s dominates the loop body' % (adds[0].get('l') if adds else '?'), key=key + 'cleared-first',
           message='the snapshot no longer starts with INDEX_OP_CLEARED: a client that already holds entries ends up with duplicates')
